package main

import (
	"fmt"
	"go/constant"
	"go/token"
	"go/types"
	"os"
	"strings"
	"sync"

	"golang.org/x/tools/go/ssa"
)

var traceOn = os.Getenv("GOSYM_TRACE") != ""

// ---------- program-wide (shared, read-mostly) ----------

type fnInfo struct {
	idx  map[ssa.Value]int
	n    int
	name string
}

type Program struct {
	ssa       *ssa.Program
	pkgs      map[string]*ssa.Package
	fnInfos   sync.Map // *ssa.Function -> *fnInfo
	initPkgs  []*ssa.Package
	harnessFn sync.Map
	implMu    sync.Mutex
	impl      map[[2]types.Type]bool
	sizes     types.Sizes
}

func (p *Program) info(fn *ssa.Function) *fnInfo {
	if v, ok := p.fnInfos.Load(fn); ok {
		return v.(*fnInfo)
	}
	fi := &fnInfo{idx: map[ssa.Value]int{}, name: fn.String()}
	add := func(v ssa.Value) {
		fi.idx[v] = fi.n
		fi.n++
	}
	for _, pa := range fn.Params {
		add(pa)
	}
	for _, fv := range fn.FreeVars {
		add(fv)
	}
	for _, b := range fn.Blocks {
		for _, in := range b.Instrs {
			if v, ok := in.(ssa.Value); ok {
				add(v)
			}
		}
	}
	act, _ := p.fnInfos.LoadOrStore(fn, fi)
	return act.(*fnInfo)
}

// ---------- per-path execution state ----------

type deferred struct {
	fn   Value // *Closure / *ssa.Function / *ssa.Builtin / bound method
	args []Value
	call *ssa.CallCommon
}

type Frame struct {
	fn       *ssa.Function
	fi       *fnInfo
	env      []Value
	block    *ssa.BasicBlock
	prev     *ssa.BasicBlock
	pc       int
	defers   []*deferred
	retTo    ssa.Value // instruction in caller receiving the result (nil: discard)
	isDefer  bool      // frame is a deferred call run by caller's RunDefers/unwind
	unwind   bool      // frame is unwinding due to panic
	visits   map[*ssa.BasicBlock]int
	retVal   Value
	retSet   bool
	onReturn func(Value) // native continuation
}

type PanicV struct {
	Val     Value // Iface
	Msg     string
	Runtime bool
	Where   string
}

type waitKind int

const (
	wNone waitKind = iota
	wSend
	wRecv
	wSelect
	wCond
)

type selCase struct {
	dir  types.ChanDir
	ch   *ChanV
	send Value
}

type G struct {
	id      int
	frames  []*Frame
	done    bool
	daemon  bool
	panic   *PanicV
	wait    waitKind
	wch     *ChanV
	wval    Value
	wcases  []selCase
	wcond   func() bool
	wseq    int
	wdesc   string
	pending *PanicV // raise when resumed
	name    string
	// stall exploration: after stallAfter completed synchronisation
	// operations the goroutine runs only when nothing else can
	stallAfter int
	syncOps    int
	stalled    bool
}

type Timer struct {
	deadline *Term
	ch       *ChanV
	fn       func() // AfterFunc-like action
	active   bool
	id       int
}

type pathEnd struct {
	status string // "ok", "infeasible", "unsupported", "limit", "violation"
	msg    string
}

type Exec struct {
	syncMaps map[*Value]*MapV // model of sync.Map objects, by address
	P        *Program
	H        *Harness
	sv       *PathSolver
	prefix   []int
	trace    []int
	tpos     int

	gs      []*G
	cur     *G
	seq     int
	globals map[*ssa.Global]*Value
	now     *Term
	timers  []*Timer
	chanN   int
	steps   int
	fresh   int

	preemptBudget int
	schedNondet   bool
	mapOrderND    bool

	inputs   []*inputRec // witness sources in creation order
	covers   map[string]bool
	natives  map[*Value]*Native
	errGlobs map[*ssa.Global]bool
	funcsHit map[*ssa.Function]int
	notes    []string
	res      *PathResult

	pc             []*Term
	model          map[string]uint64
	modelPC        int
	forceNext      *G
	initDone       bool
	known          []knownRegion
	quiesceReq     bool
	advancing      map[*G]*advState
	stallFunc      string
	stallFuncK     int
	stallFuncN     int
	stallFuncG     *G
	natTimers      map[*Value]*Timer
	sleeping       map[*G]*bool
	bgCtx          *ctxObj
	wgs            map[*Value]*int
	onces          map[*Value]*int
	randIDs        []*Term
	allowIDCollide bool
	raised         bool
	panicWhere     string
	encoded        map[*Str][]*Term
	macs           []*macRec
	keyPairs       []*keyPair
	signedMsgs     []*signedRec
	randReads      [][]*Term
	concRandom     bool
	concRandN      uint64
	gMark          int
	quiesced       map[*G]bool
}

func (x *Exec) end(status, msg string) {
	panic(pathEnd{status, msg})
}

func (x *Exec) unsupported(format string, a ...interface{}) {
	x.end("unsupported", fmt.Sprintf(format, a...)+" @ "+x.where())
}

func (x *Exec) where() string {
	if x.cur == nil || len(x.cur.frames) == 0 {
		return "?"
	}
	s := ""
	for i := len(x.cur.frames) - 1; i >= 0 && i >= len(x.cur.frames)-6; i-- {
		fr := x.cur.frames[i]
		pos := ""
		if fr.block != nil && fr.pc < len(fr.block.Instrs) {
			p := x.P.ssa.Fset.Position(fr.block.Instrs[fr.pc].Pos())
			if p.IsValid() {
				pos = fmt.Sprintf(":%d", p.Line)
			}
		}
		if s != "" {
			s += " < "
		}
		s += fr.fn.String() + pos
	}
	return s
}

// ---------- value access ----------

func (x *Exec) get(fr *Frame, v ssa.Value) Value {
	switch v := v.(type) {
	case *ssa.Const:
		return x.constVal(v)
	case *ssa.Global:
		return x.global(v)
	case *ssa.Function:
		return &Closure{Fn: v}
	case *ssa.Builtin:
		return v
	}
	i, ok := fr.fi.idx[v]
	if !ok {
		panic(fmt.Sprintf("no env slot for %s in %s", v.Name(), fr.fn))
	}
	return fr.env[i]
}

func (x *Exec) set(fr *Frame, v ssa.Value, val Value) {
	fr.env[fr.fi.idx[v]] = val
}

func (x *Exec) constVal(c *ssa.Const) Value {
	t := c.Type()
	if c.Value == nil {
		return zero(t)
	}
	switch ut := under(t).(type) {
	case *types.Basic:
		if ut.Info()&types.IsBoolean != 0 {
			return MkBool(constant.BoolVal(c.Value))
		}
		if w, signed, ok := intWidth(ut); ok {
			if signed {
				i, _ := constant.Int64Val(constant.ToInt(c.Value))
				return MkBV(w, uint64(i))
			}
			u, _ := constant.Uint64Val(constant.ToInt(c.Value))
			return MkBV(w, u)
		}
		if w, ok := isFloat(ut); ok {
			f, _ := constant.Float64Val(c.Value)
			if w == 32 {
				return MkFloat32(float32(f))
			}
			return MkFloat64(f)
		}
		if ut.Info()&types.IsString != 0 {
			if c.Value.Kind() == constant.String {
				return MkStr(constant.StringVal(c.Value))
			}
			i, _ := constant.Int64Val(c.Value)
			return MkStr(string(rune(i)))
		}
	}
	panic(fmt.Sprintf("const %v : %v", c, t))
}

func (x *Exec) global(g *ssa.Global) Value {
	if p, ok := x.globals[g]; ok {
		return p
	}
	cell := new(Value)
	et := g.Type().(*types.Pointer).Elem()
	*cell = zero(et)
	x.globals[g] = cell
	// foreign package globals are not initialised (init not run): give error
	// variables a distinct identity so errors.Is / == behave.
	if g.Pkg != nil && !x.H.ownPkg(g.Pkg) {
		if g.Pkg.Pkg.Path() == "io" && g.Name() == "blackHolePool" {
			sv := (*cell).(StructV)
			sv[len(sv)-1] = &Closure{Name: "blackHolePool.New", Nat: func(x *Exec, _ []Value) Value {
				a := make([]Value, 8192)
				z := MkBV(8, 0)
				for i := range a {
					a[i] = z
				}
				p := new(Value)
				*p = SliceV{A: a}
				return Iface{T: types.NewPointer(types.NewSlice(types.Typ[types.Byte])), V: p}
			}}
		}
		if g.Pkg.Pkg.Path() == "io" && g.Name() == "Discard" {
			*cell = Iface{T: g.Pkg.Pkg.Scope().Lookup("discard").Type(), V: StructV{}}
		}
		if types.Identical(et, errorType) {
			obj := new(Value)
			*obj = StructV{MkStr(g.Pkg.Pkg.Path() + "." + g.Name())}
			*cell = Iface{T: errStringPtrType(x.P), V: obj}
		}
	}
	return cell
}

var errorType = types.Universe.Lookup("error").Type()

func errStringPtrType(p *Program) types.Type {
	pkg := p.ssa.ImportedPackage("errors")
	if pkg == nil {
		panic("errors package not loaded")
	}
	return types.NewPointer(pkg.Pkg.Scope().Lookup("errorString").Type())
}

// ---------- goroutines / frames ----------

func (x *Exec) newG(name string) *G {
	g := &G{id: len(x.gs), name: name, stallAfter: -1}
	x.gs = append(x.gs, g)
	return g
}

func (x *Exec) pushFrame(g *G, fn *ssa.Function, args []Value, env []Value, retTo ssa.Value) *Frame {
	if len(fn.Blocks) == 0 {
		x.unsupported("external function %s", fn)
	}
	fi := x.P.info(fn)
	fr := &Frame{fn: fn, fi: fi, env: make([]Value, fi.n), block: fn.Blocks[0], retTo: retTo}
	if len(args) != len(fn.Params) {
		panic(fmt.Sprintf("arity mismatch calling %s: %d vs %d", fn, len(args), len(fn.Params)))
	}
	for i, a := range args {
		fr.env[i] = a
	}
	for i, fv := range env {
		fr.env[len(fn.Params)+i] = fv
	}
	g.frames = append(g.frames, fr)
	if x.funcsHit != nil {
		x.funcsHit[fn]++
	}
	if len(g.frames) > 400 {
		x.end("limit", "call depth > 400")
	}
	return fr
}

func (g *G) top() *Frame { return g.frames[len(g.frames)-1] }

func (g *G) runnable() bool { return !g.done && g.wait == wNone }

// raise a Go panic in goroutine g
func (x *Exec) goPanic(g *G, val Value, msg string, runtime bool) {
	x.raised = true
	g.panic = &PanicV{Val: val, Msg: msg, Runtime: runtime, Where: x.where()}
	if len(g.frames) > 0 {
		g.top().unwind = true
	}
}

func (x *Exec) runtimePanic(msg string) {
	x.goPanic(x.cur, Iface{T: runtimeErrT, V: MkStr(msg)}, "runtime error: "+msg, true)
}

var runtimeErrT = types.NewNamed(types.NewTypeName(token.NoPos, nil, "runtime.Error", nil), types.Typ[types.String], nil)

// stepG executes goroutine g until it blocks, finishes, or yields.
// Returns when g is no longer the goroutine to run.
func (x *Exec) runG(g *G) {
	x.cur = g
	for {
		if g.done || g.wait != wNone {
			return
		}
		if g.pending != nil {
			p := g.pending
			g.pending = nil
			x.goPanic(g, p.Val, p.Msg, p.Runtime)
		}
		if len(g.frames) == 0 {
			g.done = true
			return
		}
		fr := g.top()
		if fr.unwind {
			x.unwindStep(g, fr)
			continue
		}
		if x.cur != g {
			return
		}
		x.steps++
		if x.steps > x.H.MaxSteps {
			x.end("limit", fmt.Sprintf("step limit %d @ %s", x.H.MaxSteps, x.where()))
		}
		instr := fr.block.Instrs[fr.pc]
		if traceOn {
			fmt.Fprintf(os.Stderr, "g%d %s b%d.%d: %s\n", g.id, fr.fn.Name(), fr.block.Index, fr.pc, instr)
		}
		yield := x.exec(g, fr, instr)
		if yield {
			return
		}
	}
}

// unwindStep performs one step of panic unwinding for frame fr.
func (x *Exec) unwindStep(g *G, fr *Frame) {
	if g.panic == nil {
		// recovered: return from fr normally
		fr.unwind = false
		if fr.fn.Recover != nil {
			fr.prev = fr.block
			fr.block = fr.fn.Recover
			fr.pc = 0
			return
		}
		x.doReturn(g, fr, zero(fr.fn.Signature.Results()))
		return
	}
	if n := len(fr.defers); n > 0 {
		d := fr.defers[n-1]
		fr.defers = fr.defers[:n-1]
		x.callDeferred(g, fr, d)
		return
	}
	// pop frame, continue unwinding in caller
	g.frames = g.frames[:len(g.frames)-1]
	if len(g.frames) == 0 {
		// uncaught panic
		p := g.panic
		x.onUncaughtPanic(g, p)
		g.done = true
		return
	}
	g.top().unwind = true
}

func (x *Exec) callDeferred(g *G, fr *Frame, d *deferred) {
	nf := x.callValue(g, d.fn, d.args, nil, d.call)
	if nf != nil {
		nf.isDefer = true
	}
}

func (x *Exec) doReturn(g *G, fr *Frame, res Value) {
	g.frames = g.frames[:len(g.frames)-1]
	if fr.onReturn != nil {
		fr.onReturn(res)
	}
	if len(g.frames) == 0 {
		g.done = true
		return
	}
	caller := g.top()
	if fr.isDefer {
		// deferred call finished; caller re-executes RunDefers / continues unwinding
		return
	}
	if fr.retTo != nil {
		x.set(caller, fr.retTo, res)
	}
	caller.pc++
}

// callValue invokes a function value. Returns the new frame if an SSA frame was
// pushed (caller must not advance pc; doReturn will), or nil if the call
// completed natively (result stored, caller pc NOT advanced here).
func (x *Exec) callValue(g *G, fv Value, args []Value, retTo ssa.Value, cc *ssa.CallCommon) *Frame {
	switch f := fv.(type) {
	case *Closure:
		if f == nil {
			x.runtimePanic("invalid memory address or nil pointer dereference (nil func call)")
			return nil
		}
		if f.Nat != nil {
			r := f.Nat(x, args)
			x.nativeResult(g, retTo, r)
			return nil
		}
		return x.callFn(g, f.Fn, args, f.Env, retTo)
	case *ssa.Function:
		return x.callFn(g, f, args, nil, retTo)
	case *ssa.Builtin:
		r := x.builtin(g, f, args, cc)
		x.nativeResult(g, retTo, r)
		return nil
	}
	panic(fmt.Sprintf("callValue: %T", fv))
}

// nativeResult stores a native call's result in the current top frame.
func (x *Exec) nativeResult(g *G, retTo ssa.Value, r Value) {
	if retTo != nil && len(g.frames) > 0 {
		x.set(g.top(), retTo, r)
	}
}

type blockSignal struct{}

// tailCall: an intrinsic asks the engine to call fn instead.
type tailCall struct {
	fn   Value
	args []Value
}

func (x *Exec) callFn(g *G, fn *ssa.Function, args []Value, env []Value, retTo ssa.Value) *Frame {
	if !x.initDone && fn.Name() == "init" && fn.Pkg != nil && !x.H.ownPkg(fn.Pkg) {
		return nil // foreign package initialisers are not run
	}
	if in := lookupIntrinsic(fn); in != nil {
		r, handled := in(x, g, fn, args)
		if handled {
			if tc, ok := r.(tailCall); ok {
				return x.callValue(g, tc.fn, tc.args, retTo, nil)
			}
			x.nativeResult(g, retTo, r)
			return nil
		}
	}
	if x.H.isVrt(fn) {
		r := x.vrtCall(g, fn, args)
		x.nativeResult(g, retTo, r)
		return nil
	}
	return x.pushFrame(g, fn, args, env, retTo)
}

// ---------- instruction execution ----------

// exec executes one instruction; returns true if the scheduler must run.
func (x *Exec) exec(g *G, fr *Frame, instr ssa.Instruction) bool {
	x.raised = false
	switch in := instr.(type) {
	case *ssa.DebugRef:
	case *ssa.Alloc:
		cell := new(Value)
		*cell = zero(in.Type().(*types.Pointer).Elem())
		x.set(fr, in, cell)
	case *ssa.UnOp:
		if in.Op == token.ARROW {
			return x.execRecv(g, fr, in)
		}
		x.set(fr, in, x.unop(in, x.get(fr, in.X)))
		if x.raised {
			return false
		}
	case *ssa.BinOp:
		r := x.binop(in.Op, in.X.Type(), in.Y.Type(), x.get(fr, in.X), x.get(fr, in.Y))
		if x.raised {
			return false
		}
		x.set(fr, in, r)
	case *ssa.Store:
		p := x.get(fr, in.Addr).(*Value)
		if p == nil {
			x.runtimePanic("invalid memory address or nil pointer dereference")
			return false
		}
		storeVal(p, x.get(fr, in.Val))
	case *ssa.FieldAddr:
		p := x.get(fr, in.X).(*Value)
		if p == nil {
			x.runtimePanic("invalid memory address or nil pointer dereference")
			return false
		}
		x.set(fr, in, &(*p).(StructV)[in.Field])
	case *ssa.Field:
		x.set(fr, in, copyVal(x.get(fr, in.X).(StructV)[in.Field]))
	case *ssa.IndexAddr:
		if !x.indexAddr(fr, in) {
			return false
		}
	case *ssa.Index:
		if !x.index(fr, in) {
			return false
		}
	case *ssa.Lookup:
		x.lookup(fr, in)
		if x.raised {
			return false
		}
	case *ssa.MapUpdate:
		m := x.get(fr, in.Map).(*MapV)
		if m == nil {
			x.runtimePanic("assignment to entry in nil map")
			return false
		}
		x.mapSet(m, x.get(fr, in.Key), x.get(fr, in.Value))
	case *ssa.MakeMap:
		mt := under(in.Type()).(*types.Map)
		x.set(fr, in, &MapV{KT: mt.Key(), VT: mt.Elem()})
	case *ssa.MakeSlice:
		n := x.concInt(x.get(fr, in.Len), "make len")
		c := x.concInt(x.get(fr, in.Cap), "make cap")
		if n < 0 || c < n {
			x.runtimePanic("makeslice: len out of range")
			return false
		}
		if c > 1<<25 {
			x.unsupported("makeslice of %d elements", c)
		}
		et := under(in.Type()).(*types.Slice).Elem()
		a := make([]Value, n, c)
		if n > 0 {
			z := zero(et)
			_, scalar := z.(*Term)
			for i := range a {
				if scalar {
					a[i] = z
				} else {
					a[i] = zero(et)
				}
			}
		}
		x.set(fr, in, SliceV{A: a})
	case *ssa.MakeChan:
		n := x.concInt(x.get(fr, in.Size), "chan size")
		x.chanN++
		x.set(fr, in, &ChanV{ID: x.chanN, Cap: n, ET: under(in.Type()).(*types.Chan).Elem()})
	case *ssa.MakeClosure:
		fn := in.Fn.(*ssa.Function)
		env := make([]Value, len(in.Bindings))
		for i, b := range in.Bindings {
			env[i] = x.get(fr, b)
		}
		x.set(fr, in, &Closure{Fn: fn, Env: env})
	case *ssa.MakeInterface:
		x.set(fr, in, Iface{T: in.X.Type(), V: x.get(fr, in.X)})
	case *ssa.ChangeInterface:
		x.set(fr, in, x.get(fr, in.X))
	case *ssa.ChangeType:
		x.set(fr, in, x.get(fr, in.X))
	case *ssa.Convert:
		x.set(fr, in, x.convert(in.X.Type(), in.Type(), x.get(fr, in.X)))
	case *ssa.MultiConvert:
		x.set(fr, in, x.convert(in.X.Type(), in.Type(), x.get(fr, in.X)))
	case *ssa.SliceToArrayPointer:
		s := x.get(fr, in.X).(SliceV)
		n := int(under(in.Type().(*types.Pointer).Elem()).(*types.Array).Len())
		if len(s.A) < n {
			x.runtimePanic("cannot convert slice to array pointer: length")
			return false
		}
		cell := new(Value)
		*cell = ArrayV(s.A[:n:n])
		x.set(fr, in, cell)
	case *ssa.TypeAssert:
		x.typeAssert(fr, in)
		if x.raised {
			return false
		}
	case *ssa.Extract:
		x.set(fr, in, x.get(fr, in.Tuple).(TupleV)[in.Index])
	case *ssa.Slice:
		if !x.slice(fr, in) {
			return false
		}
	case *ssa.Phi:
		// handled at block entry
		panic("phi reached")
	case *ssa.Range:
		x.set(fr, in, x.mkRange(fr, in))
	case *ssa.Next:
		x.set(fr, in, x.next(in, x.get(fr, in.Iter)))
	case *ssa.Select:
		return x.execSelect(g, fr, in)
	case *ssa.Send:
		return x.execSend(g, fr, in)
	case *ssa.Go:
		fv, args := x.prepareCall(fr, &in.Call)
		if x.raised {
			return false
		}
		ng := x.newG(fmt.Sprintf("go@%s", x.where()))
		save := x.cur
		x.cur = ng
		nf := x.callValue(ng, fv, args, nil, &in.Call)
		x.cur = save
		if nf == nil && len(ng.frames) == 0 {
			ng.done = true
		}
		fr.pc++
		return x.maybePreempt(g)
	case *ssa.Defer:
		fv, args := x.prepareCall(fr, &in.Call)
		if x.raised {
			return false
		}
		fr.defers = append(fr.defers, &deferred{fn: fv, args: args, call: &in.Call})
	case *ssa.RunDefers:
		if n := len(fr.defers); n > 0 {
			d := fr.defers[n-1]
			fr.defers = fr.defers[:n-1]
			x.callDeferred(g, fr, d)
			if g.wait != wNone {
				fr.defers = append(fr.defers, d)
				return true
			}
			return false // re-execute RunDefers afterwards
		}
	case *ssa.Call:
		fv, args := x.prepareCall(fr, &in.Call)
		if x.raised {
			return false
		}
		var retTo ssa.Value = in
		nf := x.callValue(g, fv, args, retTo, &in.Call)
		if nf != nil || x.raised || g.wait != wNone || g.done {
			// frame pushed (return advances pc), or panicking, or blocked (retry)
			if g.wait != wNone {
				return true
			}
			return false
		}
		if x.cur != g {
			fr.pc++
			return true
		}
	case *ssa.Return:
		var res Value
		switch len(in.Results) {
		case 0:
		case 1:
			res = x.get(fr, in.Results[0])
		default:
			tv := make(TupleV, len(in.Results))
			for i, r := range in.Results {
				tv[i] = x.get(fr, r)
			}
			res = tv
		}
		x.doReturn(g, fr, res)
		return false
	case *ssa.Jump:
		x.jump(fr, fr.block.Succs[0])
		return false
	case *ssa.If:
		c := x.get(fr, in.Cond).(*Term)
		var taken int
		if c.IsConst() {
			if c.U == 1 {
				taken = 0
			} else {
				taken = 1
			}
		} else {
			taken = x.choose([]*Term{c, Not(c)}, "if")
		}
		x.jump(fr, fr.block.Succs[taken])
		return false
	case *ssa.Panic:
		v := x.get(fr, in.X)
		x.goPanic(g, v, "panic: "+x.showPanicVal(v), false)
		return false
	default:
		x.unsupported("instruction %T", instr)
	}
	fr.pc++
	return false
}

func (x *Exec) showPanicVal(v Value) string {
	if i, ok := v.(Iface); ok {
		if s, ok := i.V.(*Str); ok {
			return s.String()
		}
		if i.T != nil {
			if p, ok := i.V.(*Value); ok && p != nil {
				if sv, ok := (*p).(StructV); ok && len(sv) > 0 {
					if s, ok := sv[0].(*Str); ok {
						return s.String()
					}
				}
			}
			return i.T.String()
		}
	}
	return showVal(v)
}

func (x *Exec) jump(fr *Frame, to *ssa.BasicBlock) {
	from := fr.block
	// loop bound: count entries per block
	if fr.visits == nil {
		fr.visits = map[*ssa.BasicBlock]int{}
	}
	fr.visits[to]++
	if fr.visits[to] > x.H.Unwind && (fr.visits[to] > 100*x.H.Unwind || !x.isHarnessFn(fr.fn)) {
		x.end("unwind", fmt.Sprintf("unwind bound %d exceeded in %s block %d", x.H.Unwind, fr.fn, to.Index))
	}
	// phis
	var pi int
	for i, p := range to.Preds {
		if p == from {
			pi = i
			break
		}
	}
	var vals []Value
	n := 0
	for _, in := range to.Instrs {
		phi, ok := in.(*ssa.Phi)
		if !ok {
			break
		}
		vals = append(vals, x.get(fr, phi.Edges[pi]))
		n++
	}
	for i := 0; i < n; i++ {
		x.set(fr, to.Instrs[i].(*ssa.Phi), vals[i])
	}
	fr.prev = from
	fr.block = to
	fr.pc = n
}

func (x *Exec) isHarnessFn(fn *ssa.Function) bool {
	if v, ok := x.P.harnessFn.Load(fn); ok {
		return v.(bool)
	}
	r := strings.Contains(x.P.ssa.Fset.Position(fn.Pos()).Filename, "zz_verif_")
	if fn.Parent() != nil {
		r = x.isHarnessFn(fn.Parent())
	}
	x.P.harnessFn.Store(fn, r)
	return r
}

func (x *Exec) prepareCall(fr *Frame, cc *ssa.CallCommon) (Value, []Value) {
	var args []Value
	var fv Value
	if cc.Method != nil {
		recv := x.get(fr, cc.Value)
		iv, ok := recv.(Iface)
		if !ok {
			panic(fmt.Sprintf("invoke on non-iface %T", recv))
		}
		if iv.T == nil {
			x.runtimePanic("invalid memory address or nil pointer dereference (nil interface method call)")
			return nil, nil
		}
		// native objects
		if nat := x.asNative(iv.V); nat != nil {
			name := cc.Method.Name()
			margs := make([]Value, len(cc.Args))
			for i, a := range cc.Args {
				margs[i] = x.get(fr, a)
			}
			return &Closure{Name: name, Nat: func(x *Exec, _ []Value) Value { return x.nativeMethod(nat, name, margs) }}, nil
		}
		fn := x.P.ssa.LookupMethod(iv.T, cc.Method.Pkg(), cc.Method.Name())
		if fn == nil {
			x.unsupported("method %s not found on %s", cc.Method.Name(), iv.T)
		}
		fv = fn
		args = append(args, iv.V)
	} else {
		fv = x.get(fr, cc.Value)
	}
	for _, a := range cc.Args {
		args = append(args, x.get(fr, a))
	}
	return fv, args
}

func (x *Exec) asNative(v Value) *Native {
	switch v := v.(type) {
	case *Native:
		return v
	case *Value:
		if v != nil {
			if n, ok := x.natives[v]; ok {
				return n
			}
			if n, ok := (*v).(*Native); ok {
				return n
			}
		}
	}
	return nil
}

func (x *Exec) concInt(v Value, what string) int {
	t := v.(*Term)
	if !t.IsConst() {
		// fork over small range is not attempted here
		x.unsupported("symbolic %s", what)
	}
	return int(t.Int64())
}

// concIndex resolves an index term to a concrete int in [0,n), forking over
// feasible values when symbolic. Returns -1 after raising an out-of-range panic.
func (x *Exec) concIndex(t *Term, n int, what string) int {
	if t.IsConst() {
		i := t.Int64()
		if i < 0 || i >= int64(n) {
			x.runtimePanic(fmt.Sprintf("index out of range [%d] with length %d", i, n))
			return -1
		}
		return int(i)
	}
	if n > 64 {
		x.unsupported("symbolic index into %d elements (%s)", n, what)
	}
	conds := make([]*Term, 0, n+1)
	for i := 0; i < n; i++ {
		conds = append(conds, Eq(t, MkBV(t.S.W, uint64(i))))
	}
	conds = append(conds, Not(Ult(t, MkBV(t.S.W, uint64(n)))))
	k := x.choose(conds, "index")
	if k == n {
		x.runtimePanic(fmt.Sprintf("index out of range [sym] with length %d", n))
		return -1
	}
	return k
}

func (x *Exec) indexAddr(fr *Frame, in *ssa.IndexAddr) bool {
	base := x.get(fr, in.X)
	idx := x.get(fr, in.Index).(*Term)
	switch b := base.(type) {
	case SliceV:
		i := x.concIndex(idx, len(b.A), "slice")
		if i < 0 {
			return false
		}
		x.set(fr, in, &b.A[i])
	case *Value:
		if b == nil {
			x.runtimePanic("invalid memory address or nil pointer dereference")
			return false
		}
		arr := (*b).(ArrayV)
		i := x.concIndex(idx, len(arr), "array")
		if i < 0 {
			return false
		}
		x.set(fr, in, &arr[i])
	default:
		panic(fmt.Sprintf("indexaddr %T", base))
	}
	return true
}

func (x *Exec) index(fr *Frame, in *ssa.Index) bool {
	base := x.get(fr, in.X)
	idx := x.get(fr, in.Index).(*Term)
	switch b := base.(type) {
	case ArrayV:
		i := x.concIndex(idx, len(b), "array")
		if i < 0 {
			return false
		}
		x.set(fr, in, copyVal(b[i]))
	case *Str:
		if b.Opaque {
			x.unsupported("index into opaque string")
		}
		i := x.concIndex(idx, b.Len(), "string")
		if i < 0 {
			return false
		}
		x.set(fr, in, b.Byte(i))
	case SliceV:
		i := x.concIndex(idx, len(b.A), "slice")
		if i < 0 {
			return false
		}
		x.set(fr, in, copyVal(b.A[i]))
	default:
		panic(fmt.Sprintf("index %T", base))
	}
	return true
}

func (x *Exec) slice(fr *Frame, in *ssa.Slice) bool {
	base := x.get(fr, in.X)
	opt := func(v ssa.Value, def int) int {
		if v == nil {
			return def
		}
		return x.concInt(x.get(fr, v), "slice bound")
	}
	switch b := base.(type) {
	case *Str:
		if b.Opaque {
			x.unsupported("slice of opaque string")
		}
		lo := opt(in.Low, 0)
		hi := opt(in.High, b.Len())
		if lo < 0 || hi < lo || hi > b.Len() {
			x.runtimePanic(fmt.Sprintf("slice bounds out of range [%d:%d] with length %d", lo, hi, b.Len()))
			return false
		}
		x.set(fr, in, StrSlice(b, lo, hi))
	case SliceV:
		lo := opt(in.Low, 0)
		hi := opt(in.High, len(b.A))
		mx := opt(in.Max, cap(b.A))
		if lo < 0 || hi < lo || mx < hi || mx > cap(b.A) {
			x.runtimePanic(fmt.Sprintf("slice bounds out of range [%d:%d:%d] with capacity %d", lo, hi, mx, cap(b.A)))
			return false
		}
		if b.Nil && lo == 0 && hi == 0 {
			x.set(fr, in, SliceV{Nil: true})
		} else {
			x.set(fr, in, SliceV{A: b.A[lo:hi:mx]})
		}
	case *Value:
		if b == nil {
			x.runtimePanic("invalid memory address or nil pointer dereference")
			return false
		}
		arr := (*b).(ArrayV)
		lo := opt(in.Low, 0)
		hi := opt(in.High, len(arr))
		mx := opt(in.Max, len(arr))
		if lo < 0 || hi < lo || mx < hi || mx > len(arr) {
			x.runtimePanic("slice bounds out of range")
			return false
		}
		x.set(fr, in, SliceV{A: []Value(arr)[lo:hi:mx]})
	default:
		panic(fmt.Sprintf("slice %T", base))
	}
	return true
}

// ---------- type assertions ----------

func (x *Exec) implements(dyn types.Type, it *types.Interface) bool {
	key := [2]types.Type{dyn, it}
	x.P.implMu.Lock()
	defer x.P.implMu.Unlock()
	for k, v := range x.P.impl {
		if k[1] == it && types.Identical(k[0], dyn) {
			return v
		}
	}
	r := types.Implements(dyn, it)
	x.P.impl[key] = r
	return r
}

func (x *Exec) typeAssert(fr *Frame, in *ssa.TypeAssert) {
	v := x.get(fr, in.X).(Iface)
	var ok bool
	var res Value
	if it, isI := under(in.AssertedType).(*types.Interface); isI {
		if v.T != nil && x.implements(v.T, it) {
			ok = true
			res = v
		} else {
			res = Iface{}
		}
	} else {
		if v.T != nil && types.Identical(v.T, in.AssertedType) {
			ok = true
			res = v.V
		} else {
			res = zero(in.AssertedType)
		}
	}
	if in.CommaOk {
		x.set(fr, in, TupleV{res, MkBool(ok)})
		return
	}
	if !ok {
		have := "nil"
		if v.T != nil {
			have = v.T.String()
		}
		x.goPanic(x.cur, Iface{T: runtimeErrT, V: MkStr("interface conversion")},
			fmt.Sprintf("interface conversion: interface is %s, not %s", have, in.AssertedType), true)
		return
	}
	x.set(fr, in, res)
}
