package main

import (
	"fmt"
	"go/token"
	"go/types"

	"golang.org/x/tools/go/ssa"
)

// ---------- channel primitives ----------

// findBlocked returns the earliest goroutine blocked on ch in direction dir
// (send: a blocked sender; recv: a blocked receiver), including select cases.
func (x *Exec) findBlocked(ch *ChanV, sender bool) (*G, int) {
	var best *G
	bi := -1
	for _, g := range x.gs {
		if g.done {
			continue
		}
		switch g.wait {
		case wSend:
			if sender && g.wch == ch && (best == nil || g.wseq < best.wseq) {
				best, bi = g, -1
			}
		case wRecv:
			if !sender && g.wch == ch && (best == nil || g.wseq < best.wseq) {
				best, bi = g, -1
			}
		case wSelect:
			for i, c := range g.wcases {
				if c.ch != ch {
					continue
				}
				if (sender && c.dir == types.SendOnly) || (!sender && c.dir == types.RecvOnly) {
					if best == nil || g.wseq < best.wseq {
						best, bi = g, i
					}
					break
				}
			}
		}
	}
	return best, bi
}

// wake completes the blocked operation of goroutine g.
// For receivers: (val, ok) is the received value. For senders: nothing.
func (x *Exec) wakeRecv(g *G, caseIdx int, val Value, ok bool) {
	fr := g.top()
	instr := fr.block.Instrs[fr.pc]
	switch in := instr.(type) {
	case *ssa.UnOp:
		if in.CommaOk {
			x.set(fr, in, TupleV{val, MkBool(ok)})
		} else {
			x.set(fr, in, val)
		}
	case *ssa.Select:
		x.set(fr, in, x.selectResult(in, caseIdx, val, ok))
	default:
		panic("wakeRecv on " + instr.String())
	}
	fr.pc++
	fr.visits = nil
	g.wait = wNone
	g.wcases = nil
	x.noteSync(g)
}

func (x *Exec) wakeSend(g *G, caseIdx int) Value {
	fr := g.top()
	instr := fr.block.Instrs[fr.pc]
	var v Value
	switch in := instr.(type) {
	case *ssa.Send:
		v = g.wval
	case *ssa.Select:
		v = g.wcases[caseIdx].send
		x.set(fr, in, x.selectResult(in, caseIdx, nil, false))
	default:
		panic("wakeSend on " + instr.String())
	}
	fr.pc++
	fr.visits = nil
	g.wait = wNone
	g.wcases = nil
	g.wval = nil
	x.noteSync(g)
	return v
}

func (x *Exec) selectResult(in *ssa.Select, idx int, val Value, ok bool) Value {
	tv := TupleV{MkBV(64, uint64(int64(idx))), MkBool(ok)}
	for i, st := range in.States {
		if st.Dir == types.RecvOnly {
			if i == idx {
				tv = append(tv, val)
			} else {
				tv = append(tv, zero(under(st.Chan.Type()).(*types.Chan).Elem()))
			}
		}
	}
	return tv
}

// trySend attempts a non-blocking send; returns true on success.
func (x *Exec) trySendCh(ch *ChanV, v Value) (done bool, panicked bool) {
	if ch == nil {
		return false, false
	}
	if ch.Closed {
		x.goPanic(x.cur, Iface{T: runtimeErrT, V: MkStr("send on closed channel")}, "send on closed channel", true)
		return false, true
	}
	if rg, ci := x.findBlocked(ch, false); rg != nil {
		x.wakeRecv(rg, ci, copyVal(v), true)
		return true, false
	}
	if len(ch.Buf) < ch.Cap {
		ch.Buf = append(ch.Buf, copyVal(v))
		return true, false
	}
	return false, false
}

func (x *Exec) tryRecvCh(ch *ChanV) (v Value, ok bool, done bool) {
	if ch == nil {
		return nil, false, false
	}
	if len(ch.Buf) > 0 {
		v = ch.Buf[0]
		ch.Buf = ch.Buf[1:]
		// a blocked sender can now move its value into the buffer
		if sg, ci := x.findBlocked(ch, true); sg != nil {
			sv := x.wakeSend(sg, ci)
			ch.Buf = append(ch.Buf, copyVal(sv))
		}
		return v, true, true
	}
	if sg, ci := x.findBlocked(ch, true); sg != nil {
		sv := x.wakeSend(sg, ci)
		return copyVal(sv), true, true
	}
	if ch.Closed {
		return zero(ch.ET), false, true
	}
	return nil, false, false
}

func (x *Exec) chanClose(g *G, ch *ChanV) {
	if ch == nil {
		x.goPanic(g, Iface{T: runtimeErrT, V: MkStr("close of nil channel")}, "close of nil channel", true)
		return
	}
	if ch.Closed {
		x.goPanic(g, Iface{T: runtimeErrT, V: MkStr("close of closed channel")}, "close of closed channel", true)
		return
	}
	ch.Closed = true
	for {
		rg, ci := x.findBlocked(ch, false)
		if rg == nil {
			break
		}
		x.wakeRecv(rg, ci, zero(ch.ET), false)
	}
	for {
		sg, _ := x.findBlocked(ch, true)
		if sg == nil {
			break
		}
		sg.wait = wNone
		sg.wcases = nil
		sg.pending = &PanicV{Val: Iface{T: runtimeErrT, V: MkStr("send on closed channel")}, Msg: "send on closed channel", Runtime: true}
	}
}

func (x *Exec) block(g *G, k waitKind, desc string) {
	g.wait = k
	x.seq++
	g.wseq = x.seq
	g.wdesc = desc
}

func (x *Exec) execSend(g *G, fr *Frame, in *ssa.Send) bool {
	ch := x.get(fr, in.Chan).(*ChanV)
	v := x.get(fr, in.X)
	done, pan := x.trySendCh(ch, v)
	if pan {
		return false
	}
	if done {
		fr.pc++
		fr.visits = nil
		return x.maybePreempt(g)
	}
	g.wch = ch
	g.wval = v
	x.block(g, wSend, "chan send")
	return true
}

func (x *Exec) execRecv(g *G, fr *Frame, in *ssa.UnOp) bool {
	ch := x.get(fr, in.X).(*ChanV)
	v, ok, done := x.tryRecvCh(ch)
	if done {
		if in.CommaOk {
			x.set(fr, in, TupleV{v, MkBool(ok)})
		} else {
			x.set(fr, in, v)
		}
		fr.pc++
		fr.visits = nil
		return x.maybePreempt(g)
	}
	g.wch = ch
	x.block(g, wRecv, "chan recv")
	return true
}

func (x *Exec) execSelect(g *G, fr *Frame, in *ssa.Select) bool {
	cases := make([]selCase, len(in.States))
	for i, st := range in.States {
		c := selCase{dir: st.Dir}
		c.ch, _ = x.get(fr, st.Chan).(*ChanV)
		if st.Dir == types.SendOnly {
			c.send = x.get(fr, st.Send)
		}
		cases[i] = c
	}
	// which cases are ready?
	var ready []int
	for i, c := range cases {
		if c.ch == nil {
			continue
		}
		if c.dir == types.SendOnly {
			if c.ch.Closed {
				ready = append(ready, i)
				continue
			}
			if rg, _ := x.findBlocked(c.ch, false); rg != nil || len(c.ch.Buf) < c.ch.Cap {
				ready = append(ready, i)
			}
		} else {
			if len(c.ch.Buf) > 0 || c.ch.Closed {
				ready = append(ready, i)
				continue
			}
			if sg, _ := x.findBlocked(c.ch, true); sg != nil {
				ready = append(ready, i)
			}
		}
	}
	if len(ready) > 0 {
		pick := ready[0]
		if len(ready) > 1 && x.schedNondet {
			pick = ready[x.chooseFree(len(ready), "select")]
		}
		c := cases[pick]
		if c.dir == types.SendOnly {
			_, pan := x.trySendCh(c.ch, c.send)
			if pan {
				return false
			}
			x.set(fr, in, x.selectResult(in, pick, nil, false))
		} else {
			v, ok, _ := x.tryRecvCh(c.ch)
			x.set(fr, in, x.selectResult(in, pick, v, ok))
		}
		fr.pc++
		if in.Blocking {
			fr.visits = nil
		}
		return x.maybePreempt(g)
	}
	if !in.Blocking {
		x.set(fr, in, x.selectResult(in, -1, nil, false))
		fr.pc++
		return false
	}
	g.wcases = cases
	x.block(g, wSelect, "select")
	return true
}

// maybePreempt is called after a completed synchronisation operation.
func (x *Exec) noteSync(g *G) {
	g.syncOps++
	if g.stallAfter >= 0 && g.syncOps >= g.stallAfter {
		g.stalled = true
	}
	// vStallFunc: the goroutine that performs the k-th synchronisation
	// operation inside the named function (counted over all goroutines) is
	// descheduled from then on
	if x.stallFunc != "" && x.stallFuncG == nil {
		in := false
		for _, fr := range g.frames {
			if fr.fn.Name() == x.stallFunc {
				in = true
				break
			}
		}
		if in {
			x.stallFuncN++
			if x.stallFuncN >= x.stallFuncK {
				g.stalled = true
				x.stallFuncG = g
			}
		}
	}
}

// stallPoint: a point at which a designated goroutine may be descheduled by
// stall exploration, but which is not a decision point of delay bounding
// (mutex releases).
func (x *Exec) stallPoint(g *G) {
	x.noteSync(g)
	if g.stalled {
		// yield: the scheduler re-evaluates who can run (goroutines waiting for
		// quiescence included) and comes back to g only if nobody else can
		x.cur = nil
	}
}

func (x *Exec) maybePreempt(g *G) bool {
	x.noteSync(g)
	if g.stalled {
		return true // yield; see stallPoint
	}
	if x.preemptBudget <= 0 {
		return false
	}
	var others []*G
	for _, o := range x.gs {
		if o != g && o.runnable() {
			others = append(others, o)
		}
	}
	if len(others) == 0 {
		return false
	}
	k := x.chooseFree(len(others)+1, "preempt")
	if k == 0 {
		return false
	}
	x.preemptBudget--
	x.forceNext = others[k-1]
	return true
}

// ---------- scheduler ----------

func (x *Exec) schedule(main *G) {
	for {
		var run []*G
		for _, g := range x.gs {
			if g.wait == wCond && g.wcond != nil && g.wcond() {
				g.wait = wNone
				g.wcond = nil
			}
			if g.runnable() {
				run = append(run, g)
			}
		}
		if main.done {
			return
		}
		if len(run) > 1 {
			var live []*G
			for _, g := range run {
				if !g.stalled {
					live = append(live, g)
				}
			}
			if len(live) > 0 && len(live) < len(run) {
				run = live
				if x.forceNext != nil && x.forceNext.stalled {
					x.forceNext = nil
				}
			}
		}
		if len(run) == 0 {
			if x.fireTimer() {
				continue
			}
			// deadlock: main blocked, nothing runnable
			x.onDeadlock(main)
			return
		}
		var next *G
		if x.forceNext != nil && x.forceNext.runnable() {
			next = x.forceNext
		} else if x.schedNondet && len(run) > 1 {
			next = run[x.chooseFree(len(run), "sched")]
		} else {
			// default: non-main goroutines first, lowest id first. With a delay
			// budget, deviating from the default costs one unit (delay bounding).
			next = x.pickDefault(run, main)
			if x.preemptBudget > 0 && len(run) > 1 {
				k := x.chooseFree(len(run), "delay")
				if k > 0 {
					x.preemptBudget--
					alt := make([]*G, 0, len(run))
					for _, g := range run {
						if g != next {
							alt = append(alt, g)
						}
					}
					next = alt[k-1]
				}
			}
		}
		x.forceNext = nil
		x.runG(next)
	}
}

func (x *Exec) pickDefault(run []*G, main *G) *G {
	// Non-main goroutines run first (router workers react before the harness
	// proceeds), lowest id first; main last.
	for _, g := range run {
		if g != main {
			return g
		}
	}
	return run[0]
}

func (x *Exec) describeBlocked() string {
	s := ""
	for _, g := range x.gs {
		if g.done {
			continue
		}
		if g.wait != wNone {
			loc := "?"
			if len(g.frames) > 0 {
				fr := g.top()
				p := x.P.ssa.Fset.Position(fr.block.Instrs[fr.pc].Pos())
				loc = fmt.Sprintf("%s:%d", fr.fn, p.Line)
			}
			s += fmt.Sprintf("[g%d %s %s at %s] ", g.id, g.name, g.wdesc, loc)
		}
	}
	return s
}

// ---------- virtual time ----------

func (x *Exec) addTimer(d *Term, ch *ChanV, fn func()) *Timer {
	// like the Go runtime: now+d saturates instead of wrapping around
	dl := Add(x.now, d)
	dl = Ite(And(Sle(MkBV(64, 0), d), Slt(dl, x.now)), MkBV(64, 1<<63-1), dl)
	t := &Timer{deadline: dl, ch: ch, fn: fn, active: true, id: len(x.timers)}
	x.timers = append(x.timers, t)
	return t
}

// fireTimer advances virtual time to the earliest active timer and fires it.
func (x *Exec) fireTimer() bool {
	var act []*Timer
	for _, t := range x.timers {
		if t.active {
			act = append(act, t)
		}
	}
	if len(act) == 0 {
		return false
	}
	pick := act[0]
	allConst := true
	for _, t := range act {
		if !t.deadline.IsConst() {
			allConst = false
		}
	}
	if allConst {
		for _, t := range act {
			if sx(t.deadline.U, 64) < sx(pick.deadline.U, 64) {
				pick = t
			}
		}
	} else if len(act) > 1 {
		conds := make([]*Term, len(act))
		for i, t := range act {
			cs := []*Term{}
			for j, o := range act {
				if i == j {
					continue
				}
				if j < i {
					cs = append(cs, Slt(t.deadline, o.deadline))
				} else {
					cs = append(cs, Sle(t.deadline, o.deadline))
				}
			}
			conds[i] = And(cs...)
		}
		pick = act[x.choose(conds, "timer")]
	}
	pick.active = false
	// now = max(now, deadline)
	x.now = Ite(Slt(x.now, pick.deadline), pick.deadline, x.now)
	if pick.fn != nil {
		pick.fn()
	}
	if pick.ch != nil {
		x.trySendCh(pick.ch, x.timeValue(x.now))
	}
	return true
}

var _ = token.ADD
