package main

// Persistent SMT solver processes (z3 -in / z3-new -in / cvc5 --incremental).

import (
	"os"
	"bufio"
	"fmt"
	"io"
	"os/exec"
	"strconv"
	"strings"
	"time"
)

type Solver struct {
	kind    string
	cmd     *exec.Cmd
	in      io.WriteCloser
	out     *bufio.Reader
	Queries int
	TimeNs  int64 // wall time spent waiting for check-sat answers
	Time    time.Duration
	Errors  int
	tmoMs   int
	log     io.Writer
}

func solverArgs(kind string, tmoMs int) (string, []string) {
	switch kind {
	case "z3":
		return "z3", []string{"-in", fmt.Sprintf("-t:%d", tmoMs)}
	case "z3-new":
		return "z3-new", []string{"-in", fmt.Sprintf("-t:%d", tmoMs)}
	case "cvc5":
		return "cvc5", []string{"--incremental", "--lang=smt2", "--produce-models", fmt.Sprintf("--tlimit-per=%d", tmoMs), "--fp-exp"}
	}
	panic("unknown solver " + kind)
}

func NewSolver(kind string, tmoMs int) (*Solver, error) {
	bin, args := solverArgs(kind, tmoMs)
	cmd := exec.Command(bin, args...)
	in, err := cmd.StdinPipe()
	if err != nil {
		return nil, err
	}
	outp, err := cmd.StdoutPipe()
	if err != nil {
		return nil, err
	}
	cmd.Stderr = nil
	if err := cmd.Start(); err != nil {
		return nil, err
	}
	s := &Solver{kind: kind, cmd: cmd, in: in, out: bufio.NewReaderSize(outp, 1<<16), tmoMs: tmoMs}
	if p := os.Getenv("GOSYM_SMTLOG"); p != "" {
		f, _ := os.OpenFile(fmt.Sprintf("%s.%d", p, cmd.Process.Pid), os.O_CREATE|os.O_WRONLY|os.O_TRUNC, 0644)
		s.log = f
	}
	s.Reset()
	return s, nil
}

func (s *Solver) Close() {
	if s == nil || s.cmd == nil {
		return
	}
	s.in.Close()
	s.cmd.Process.Kill()
	s.cmd.Wait()
	s.cmd = nil
}

func (s *Solver) Send(text string) {
	if s.log != nil {
		io.WriteString(s.log, text)
	}
	io.WriteString(s.in, text)
}

func (s *Solver) Reset() {
	if s.kind == "cvc5" {
		s.Send("(reset)\n(set-logic ALL)\n(set-option :produce-models true)\n")
	} else {
		s.Send("(reset)\n(set-option :produce-models true)\n")
	}
}

// CheckSat returns "sat", "unsat" or "unknown" (any error => "unknown").
func (s *Solver) CheckSat() string {
	t0 := time.Now()
	defer func() { s.TimeNs += time.Since(t0).Nanoseconds() }()
	s.Send("(check-sat)\n")
	s.Queries++
	res := "unknown"
	for {
		line, err := s.out.ReadString('\n')
		if err != nil {
			s.Errors++
			res = "unknown"
			break
		}
		line = strings.TrimSpace(line)
		if s.log != nil {
			fmt.Fprintf(s.log, "; <- %s\n", line)
		}
		if line == "" || line == "success" {
			continue
		}
		if line == "sat" || line == "unsat" || line == "unknown" {
			res = line
			break
		}
		if strings.HasPrefix(line, "(error") {
			s.Errors++
			// an error precedes the verdict; the verdict is not to be trusted
			// keep reading until verdict then return unknown
			for {
				l2, err := s.out.ReadString('\n')
				if err != nil {
					break
				}
				l2 = strings.TrimSpace(l2)
				if l2 == "sat" || l2 == "unsat" || l2 == "unknown" {
					break
				}
			}
			res = "unknown"
			break
		}
		// timeout message etc.
		if strings.Contains(line, "timeout") {
			continue
		}
	}
	s.Time += time.Since(t0)
	return res
}

// readSexp reads one balanced s-expression from the solver.
func (s *Solver) readSexp() (string, error) {
	var sb strings.Builder
	depth := 0
	started := false
	for {
		c, err := s.out.ReadByte()
		if err != nil {
			return sb.String(), err
		}
		if !started {
			if c == ' ' || c == '\n' || c == '\r' || c == '\t' {
				continue
			}
			started = true
			if c != '(' {
				// atom
				sb.WriteByte(c)
				for {
					c, err = s.out.ReadByte()
					if err != nil || c == '\n' || c == ' ' {
						return sb.String(), nil
					}
					sb.WriteByte(c)
				}
			}
		}
		sb.WriteByte(c)
		if c == '(' {
			depth++
		} else if c == ')' {
			depth--
			if depth == 0 {
				return sb.String(), nil
			}
		}
	}
}

// GetValues fetches values for the given (already declared) constants.
func (s *Solver) GetValues(vars []*Term) (map[string]uint64, error) {
	res := map[string]uint64{}
	if len(vars) == 0 {
		return res, nil
	}
	var sb strings.Builder
	sb.WriteString("(get-value (")
	for _, v := range vars {
		sb.WriteString(v.Name)
		sb.WriteByte(' ')
	}
	sb.WriteString("))\n")
	s.Send(sb.String())
	txt, err := s.readSexp()
	if err != nil {
		return nil, err
	}
	if strings.HasPrefix(txt, "(error") {
		s.Errors++
		return nil, fmt.Errorf("solver: %s", txt)
	}
	toks := tokenize(txt)
	pos := 0
	node := parseSexp(toks, &pos)
	for _, pair := range node.kids {
		if len(pair.kids) != 2 {
			continue
		}
		name := pair.kids[0].atom
		res[name] = sexpValue(pair.kids[1])
	}
	return res, nil
}

type sexp struct {
	atom string
	kids []*sexp
}

func tokenize(s string) []string {
	var toks []string
	i := 0
	for i < len(s) {
		c := s[i]
		switch {
		case c == '(' || c == ')':
			toks = append(toks, string(c))
			i++
		case c == ' ' || c == '\n' || c == '\t' || c == '\r':
			i++
		case c == '|':
			j := i + 1
			for j < len(s) && s[j] != '|' {
				j++
			}
			toks = append(toks, s[i+1:j])
			i = j + 1
		default:
			j := i
			for j < len(s) && s[j] != '(' && s[j] != ')' && s[j] != ' ' && s[j] != '\n' {
				j++
			}
			toks = append(toks, s[i:j])
			i = j
		}
	}
	return toks
}

func parseSexp(toks []string, pos *int) *sexp {
	if *pos >= len(toks) {
		return &sexp{}
	}
	t := toks[*pos]
	*pos++
	if t != "(" {
		return &sexp{atom: t}
	}
	n := &sexp{}
	for *pos < len(toks) && toks[*pos] != ")" {
		n.kids = append(n.kids, parseSexp(toks, pos))
	}
	*pos++
	return n
}

func parseBits(a string) (uint64, int) {
	if strings.HasPrefix(a, "#x") {
		v, _ := strconv.ParseUint(a[2:], 16, 64)
		return v, 4 * (len(a) - 2)
	}
	if strings.HasPrefix(a, "#b") {
		v, _ := strconv.ParseUint(a[2:], 2, 64)
		return v, len(a) - 2
	}
	return 0, 0
}

func sexpValue(n *sexp) uint64 {
	if n.atom != "" {
		switch n.atom {
		case "true":
			return 1
		case "false":
			return 0
		}
		v, _ := parseBits(n.atom)
		return v
	}
	if len(n.kids) == 0 {
		return 0
	}
	head := n.kids[0].atom
	switch head {
	case "fp":
		if len(n.kids) == 4 {
			sg, _ := parseBits(n.kids[1].atom)
			ex, ew := parseBits(n.kids[2].atom)
			mn, mw := parseBits(n.kids[3].atom)
			return sg<<uint(ew+mw) | ex<<uint(mw) | mn
		}
	case "_":
		if len(n.kids) >= 4 {
			eb, _ := strconv.Atoi(n.kids[2].atom)
			sb, _ := strconv.Atoi(n.kids[3].atom)
			mw := sb - 1
			switch n.kids[1].atom {
			case "+zero":
				return 0
			case "-zero":
				return 1 << uint(eb+mw)
			case "+oo":
				return mask(eb) << uint(mw)
			case "-oo":
				return 1<<uint(eb+mw) | mask(eb)<<uint(mw)
			case "NaN":
				return mask(eb)<<uint(mw) | 1<<uint(mw-1)
			}
		}
		if len(n.kids) == 3 && strings.HasPrefix(n.kids[1].atom, "bv") {
			v, _ := strconv.ParseUint(n.kids[1].atom[2:], 10, 64)
			return v
		}
	}
	return 0
}
