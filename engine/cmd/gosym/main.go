package main

import (
	"runtime/pprof"
	"encoding/json"
	"flag"
	"fmt"
	"os"
	"path/filepath"
	"sort"
	"strings"
	"time"

	"golang.org/x/tools/go/packages"
	"golang.org/x/tools/go/ssa"
	"golang.org/x/tools/go/ssa/ssautil"
	"go/types"
)

// repoDir is /repo for every registered check; VERIF_REPO redirects a run to a
// scratch worktree (used only to evaluate seeded changes without touching /repo).
var repoDir = envOr("VERIF_REPO", "/repo")

func envOr(k, d string) string {
	if v := os.Getenv(k); v != "" {
		return v
	}
	return d
}
const modPath = "github.com/gammazero/nexus/v3"

func goEnv() []string {
	env := os.Environ()
	env = append(env, "PATH=/opt/veriftools/go1.26.8/bin:"+os.Getenv("PATH"),
		"GOFLAGS=-mod=mod", "GOPROXY=off", "GOSUMDB=off", "GOTOOLCHAIN=local")
	return env
}

// overlayFor maps /verif/harness/<pkgdir>/*.go into /repo/<pkgdir>/zz_verif_*.go
func overlayFor(harnessDir string) (map[string][]byte, map[string]string, error) {
	ov := map[string][]byte{}
	real := map[string]string{}
	err := filepath.Walk(harnessDir, func(p string, info os.FileInfo, err error) error {
		if err != nil {
			return err
		}
		if info.IsDir() || !strings.HasSuffix(p, ".go") {
			return nil
		}
		rel, _ := filepath.Rel(harnessDir, p)
		dir := filepath.Dir(rel)
		base := filepath.Base(rel)
		if !strings.HasPrefix(base, "zz_verif_") {
			base = "zz_verif_" + base
		}
		b, err := os.ReadFile(p)
		if err != nil {
			return err
		}
		virt := filepath.Join(repoDir, dir, base)
		ov[virt] = b
		real[virt] = p
		return nil
	})
	if err != nil {
		return nil, nil, err
	}
	// per-package runtime file from the template
	tmpl, terr := os.ReadFile(filepath.Join(harnessDir, "vrt.go.tmpl"))
	if terr != nil {
		return nil, nil, terr
	}
	dirs := map[string]string{}
	for virt, b := range ov {
		d := filepath.Dir(virt)
		if _, ok := dirs[d]; ok {
			continue
		}
		for _, line := range strings.Split(string(b), "\n") {
			if strings.HasPrefix(line, "package ") {
				dirs[d] = strings.TrimSpace(strings.TrimPrefix(line, "package "))
				break
			}
		}
	}
	for d, pn := range dirs {
		virt := filepath.Join(d, "zz_verif_vrt.go")
		ov[virt] = []byte(strings.Replace(string(tmpl), "PKGNAME", pn, 1))
		real[virt] = ""
	}
	return ov, real, nil
}

func loadProgram(harnessDir string, pkgDirs []string) (*Program, error) {
	ov, _, err := overlayFor(harnessDir)
	if err != nil {
		return nil, err
	}
	cfg := &packages.Config{Mode: packages.LoadAllSyntax, Dir: repoDir, Overlay: ov, Env: goEnv()}
	pats := []string{}
	for _, d := range pkgDirs {
		pats = append(pats, "./"+d)
	}
	pkgs, err := packages.Load(cfg, pats...)
	if err != nil {
		return nil, err
	}
	nerr := 0
	packages.Visit(pkgs, nil, func(p *packages.Package) {
		for _, e := range p.Errors {
			fmt.Fprintln(os.Stderr, "load error:", e)
			nerr++
		}
	})
	if nerr > 0 {
		return nil, fmt.Errorf("%d package load errors", nerr)
	}
	prog, spkgs := ssautil.AllPackages(pkgs, ssa.InstantiateGenerics)
	prog.Build()
	P := &Program{ssa: prog, pkgs: map[string]*ssa.Package{}, impl: map[[2]types.Type]bool{}}
	for i, sp := range spkgs {
		if sp != nil {
			P.pkgs[pkgs[i].PkgPath] = sp
		}
	}
	// init order: own packages in dependency order
	var order []*ssa.Package
	seen := map[*types.Package]bool{}
	var visit func(tp *types.Package)
	visit = func(tp *types.Package) {
		if seen[tp] {
			return
		}
		seen[tp] = true
		for _, imp := range tp.Imports() {
			visit(imp)
		}
		if strings.HasPrefix(tp.Path(), "github.com/gammazero/") {
			if sp := prog.Package(tp); sp != nil {
				order = append(order, sp)
			}
		}
	}
	for _, p := range pkgs {
		visit(p.Types)
	}
	P.initPkgs = order
	return P, nil
}

type HarnessSpec struct {
	Name     string `json:"name"`
	Pkg      string `json:"pkg"` // dir relative to repo, e.g. "wamp"
	Unwind   int    `json:"unwind"`
	MaxPaths int    `json:"max_paths"`
	MaxSteps int    `json:"max_steps"`
	TimeoutS int    `json:"timeout_s"`
	Tier     string `json:"tier"` // "", "quick", "thorough"
	Note     string `json:"note"`
	Bounds   string `json:"bounds"`
}

type HarnessResult struct {
	Spec        HarnessSpec
	Paths       int
	Status      map[string]int
	Steps       int
	Queries     int
	Unknown     int
	Asserts     int
	AssertUnsat int
	Violations  []*Violation
	Covers      map[string]int
	CoverWit    map[string][]WitnessEntry
	Funcs       map[string]int
	Msgs        []string
	WallS       float64
	SolverS     float64
	Sample      []int
}

func runHarness(P *Program, spec HarnessSpec, workers int, solver string, verbose bool) *HarnessResult {
	if spec.Unwind == 0 {
		spec.Unwind = 40
	}
	if spec.MaxPaths == 0 {
		spec.MaxPaths = 20000
	}
	if spec.MaxSteps == 0 {
		spec.MaxSteps = 2_000_000
	}
	if spec.TimeoutS == 0 {
		spec.TimeoutS = 600
	}
	h := &Harness{Name: spec.Name, PkgPath: modPath + "/" + spec.Pkg, P: P, MaxSteps: spec.MaxSteps, Unwind: spec.Unwind,
		MaxPaths: spec.MaxPaths, SolverKind: solver, SolverTmo: 6000, Workers: workers, UseModelCache: true,
		Deadline: time.Now().Add(time.Duration(spec.TimeoutS) * time.Second), ownPkgs: map[string]bool{}, Verbose: verbose}
	if spec.Pkg == "" {
		h.PkgPath = modPath
	}
	t0 := time.Now()
	results := h.Run()
	hr := &HarnessResult{Spec: spec, Status: map[string]int{}, Covers: map[string]int{}, CoverWit: map[string][]WitnessEntry{}, Funcs: map[string]int{}}
	hr.WallS = time.Since(t0).Seconds()
	msgSeen := map[string]bool{}
	for _, r := range results {
		hr.Paths++
		hr.Status[r.Status]++
		hr.Steps += r.Steps
		hr.Queries += r.Queries
		hr.SolverS += r.SolverS
		hr.Unknown += r.Unknown
		hr.Asserts += r.Asserts
		hr.AssertUnsat += r.AssertUnsat
		hr.Violations = append(hr.Violations, r.Violations...)
		for _, c := range r.Covers {
			hr.Covers[c]++
		}
		for k, w := range r.CoverWit {
			if _, ok := hr.CoverWit[k]; !ok {
				hr.CoverWit[k] = w
			}
		}
		for f, n := range r.Funcs {
			hr.Funcs[f] += n
		}
		if r.Status != "ok" && r.Status != "infeasible" {
			m := r.Status + ": " + r.Msg
			if !msgSeen[m] && len(hr.Msgs) < 20 {
				msgSeen[m] = true
				hr.Msgs = append(hr.Msgs, m)
			}
		}
		if hr.Sample == nil && r.Status == "ok" {
			hr.Sample = r.Trace
		}
	}
	return hr
}

func main() {
	os.Setenv("PATH", "/opt/veriftools/go1.26.8/bin:"+os.Getenv("PATH"))
	os.Setenv("GOFLAGS", "-mod=mod")
	os.Setenv("GOPROXY", "off")
	os.Setenv("GOSUMDB", "off")
	os.Setenv("GOTOOLCHAIN", "local")
	if len(os.Args) < 2 {
		fmt.Println("usage: gosym run|check ...")
		os.Exit(2)
	}
	switch os.Args[1] {
	case "run":
		cmdRun(os.Args[2:])
	case "check":
		cmdCheck(os.Args[2:])
	default:
		fmt.Println("unknown command")
		os.Exit(2)
	}
}

func cmdRun(args []string) {
	fs := flag.NewFlagSet("run", flag.ExitOnError)
	hdir := fs.String("harness-dir", "/verif/harness", "")
	pkg := fs.String("pkg", "wamp", "")
	name := fs.String("harness", "", "")
	unwind := fs.Int("unwind", 40, "")
	maxPaths := fs.Int("max-paths", 20000, "")
	workers := fs.Int("workers", 8, "")
	solver := fs.String("solver", "z3", "")
	tmo := fs.Int("timeout", 600, "")
	verbose := fs.Bool("v", false, "")
	cpuprof := fs.String("cpuprofile", "", "")
	maxSteps := fs.Int("max-steps", 2000000, "")
	fs.Parse(args)
	if *cpuprof != "" {
		f, _ := os.Create(*cpuprof)
		pprof.StartCPUProfile(f)
		defer pprof.StopCPUProfile()
	}
	t0 := time.Now()
	P, err := loadProgram(*hdir, []string{*pkg})
	if err != nil {
		fmt.Fprintln(os.Stderr, err)
		os.Exit(3)
	}
	fmt.Fprintf(os.Stderr, "loaded in %.1fs\n", time.Since(t0).Seconds())
	hr := runHarness(P, HarnessSpec{Name: *name, Pkg: *pkg, Unwind: *unwind, MaxPaths: *maxPaths, TimeoutS: *tmo, MaxSteps: *maxSteps}, *workers, *solver, *verbose)
	printHR(hr, *verbose)
}

func printHR(hr *HarnessResult, verbose bool) {
	fmt.Printf("harness %s: paths=%d status=%v steps=%d queries=%d unknown=%d asserts=%d unsat=%d wall=%.1fs\n",
		hr.Spec.Name, hr.Paths, hr.Status, hr.Steps, hr.Queries, hr.Unknown, hr.Asserts, hr.AssertUnsat, hr.WallS)
	for _, m := range hr.Msgs {
		fmt.Println("  !", m)
	}
	ks := []string{}
	for k := range hr.Covers {
		ks = append(ks, k)
	}
	sort.Strings(ks)
	for _, k := range ks {
		fmt.Printf("  cover %s: %d paths\n", k, hr.Covers[k])
	}
	seen := map[string]bool{}
	for _, v := range hr.Violations {
		key := v.Kind + v.Label + strings.SplitN(v.Where, " < ", 2)[0] + v.Known
		if seen[key] {
			continue
		}
		seen[key] = true
		b, _ := json.Marshal(v.Witness)
		fmt.Printf("  VIOL kind=%s label=%s known=%q msg=%s\n     where=%s\n     witness=%s\n", v.Kind, v.Label, v.Known, v.Msg, v.Where, b)
	}
	if verbose {
		for _, f := range sortedKeys(hr.Funcs) {
			fmt.Printf("  fn %s %d\n", f, hr.Funcs[f])
		}
	}
}

