package main

// gosym check <PROP> --tier quick|thorough : runs the property's harness set,
// replays solver witnesses natively, writes evidence, prints verdict lines.

import (
	"sync/atomic"
	"context"
	"crypto/sha1"
	"encoding/json"
	"flag"
	"fmt"
	"os"
	"os/exec"
	"path/filepath"
	"sort"
	"strconv"
	"strings"
	"time"
)

type PropSpec struct {
	Harnesses   []HarnessSpec `json:"harnesses"`
	Assumptions []string      `json:"assumptions"`
	Outside     []string      `json:"outside"`
}

type KnownFinding struct {
	ID       string `json:"id"`
	Property string `json:"property"`
	Status   string `json:"status"` // "known" | "fixed"
	Harness  string `json:"harness"`
	Label    string `json:"label"`
	What     string `json:"what"`
	Commit   string `json:"commit,omitempty"`
}

const verifDir = "/verif"

// outDir: where evidence, replays and work files go (/verif unless VERIF_OUT
// redirects a seeded-change evaluation elsewhere).
var outDir = envOr("VERIF_OUT", verifDir)

func loadProps() (map[string]*PropSpec, error) {
	b, err := os.ReadFile(filepath.Join(verifDir, "harness", "props.json"))
	if err != nil {
		return nil, err
	}
	m := map[string]*PropSpec{}
	if err := json.Unmarshal(b, &m); err != nil {
		return nil, err
	}
	return m, nil
}

func loadKnown() []KnownFinding {
	b, err := os.ReadFile(filepath.Join(verifDir, "known_findings.json"))
	if err != nil {
		return nil
	}
	var k []KnownFinding
	json.Unmarshal(b, &k)
	return k
}

// ---- native replay ----

type replayer struct {
	workDir string
	bins    map[string]string // pkg dir -> test binary
	errs    map[string]string
	harnessDir string
	n       int
}

func pkgNameOf(harnessDir, pkg string) string {
	ents, _ := os.ReadDir(filepath.Join(harnessDir, pkg))
	for _, e := range ents {
		if strings.HasSuffix(e.Name(), ".go") {
			b, _ := os.ReadFile(filepath.Join(harnessDir, pkg, e.Name()))
			for _, line := range strings.Split(string(b), "\n") {
				if strings.HasPrefix(line, "package ") {
					return strings.TrimSpace(strings.TrimPrefix(line, "package "))
				}
			}
		}
	}
	return filepath.Base(pkg)
}

var virtualClock = map[string]bool{}

func harnessNames(harnessDir, pkg string) []string {
	var names []string
	ents, _ := os.ReadDir(filepath.Join(harnessDir, pkg))
	for _, e := range ents {
		if !strings.HasSuffix(e.Name(), ".go") {
			continue
		}
		b, _ := os.ReadFile(filepath.Join(harnessDir, pkg, e.Name()))
		prev := ""
		for _, line := range strings.Split(string(b), "\n") {
			if strings.HasPrefix(line, "func Harness_") {
				n := strings.TrimPrefix(line, "func ")
				if i := strings.Index(n, "("); i > 0 {
					names = append(names, n[:i])
					// natively replayed inside a testing/synctest bubble
					// (virtual clock, exact quiescence)
					if strings.Contains(prev, "//verif:virtual-clock") {
						virtualClock[pkg+"."+n[:i]] = true
					}
				}
			}
			prev = line
		}
	}
	sort.Strings(names)
	return names
}

// build compiles the in-package replay test binary for pkg using -overlay.
func (r *replayer) build(pkg0 string, sched bool) (string, error) {
	pkg := pkg0
	key := pkg0
	if sched {
		key += "#sched"
	}
	if b, ok := r.bins[key]; ok {
		if b == "" {
			return "", fmt.Errorf("%s", r.errs[key])
		}
		return b, nil
	}
	ov, _, err := overlayFor(r.harnessDir)
	if err != nil {
		return "", err
	}
	dir := filepath.Join(r.workDir, "replay-"+strings.ReplaceAll(key, "/", "_"))
	os.MkdirAll(dir, 0o755)
	repl := map[string]string{}
	i := 0
	for virt, content := range ov {
		if filepath.Dir(virt) != filepath.Join(repoDir, pkg) {
			continue
		}
		i++
		p := filepath.Join(dir, fmt.Sprintf("f%d.go", i))
		os.WriteFile(p, content, 0o644)
		repl[virt] = p
	}
	// the test driver
	var sb strings.Builder
	fmt.Fprintf(&sb, "package %s\n\nimport (\n\t\"fmt\"\n\t\"os\"\n\t\"testing\"\n\t\"testing/synctest\"\n\t\"time\"\n)\n\n", pkgNameOf(r.harnessDir, pkg))
	// harnesses marked //verif:virtual-clock run in a synctest bubble: timers
	// fire only when the harness advances the clock, as in the engine
	sb.WriteString("func vRunBubble(t *testing.T, h func()) {\n\tsynctest.Test(t, func(t *testing.T) {\n\t\tvBubble = true\n\t\tvBubbleWait = synctest.Wait\n\t\tvT0 = time.Now()\n\t\th()\n\t\tfmt.Println(\"PASS\")\n\t\tos.Exit(0) // goroutines of the code under test may remain: leave the bubble at once\n\t})\n}\n\n")
	sb.WriteString("func TestVerifReplay(t *testing.T) {\n\tswitch os.Getenv(\"VERIF_HARNESS\") {\n")
	for _, n := range harnessNames(r.harnessDir, pkg) {
		if virtualClock[pkg+"."+n] {
			fmt.Fprintf(&sb, "\tcase %q:\n\t\tvRunBubble(t, %s)\n", n, n)
		} else {
			fmt.Fprintf(&sb, "\tcase %q:\n\t\t%s()\n", n, n)
		}
	}
	sb.WriteString("\tdefault:\n\t\tt.Fatal(\"unknown harness\")\n\t}\n}\n")
	tp := filepath.Join(dir, "driver_test.go")
	os.WriteFile(tp, []byte(sb.String()), 0o644)
	repl[filepath.Join(repoDir, pkg, "zz_verif_driver_test.go")] = tp
	if sched {
		// instrumented copies of the current sources (scheduling hook after every channel operation)
		sr, err := schedOverlay(filepath.Join(dir, "sched"))
		if err != nil {
			r.bins[key] = ""
			r.errs[key] = fmt.Sprintf("instrumentation failed: %v", err)
			return "", fmt.Errorf("%s", r.errs[key])
		}
		for k, v := range sr {
			repl[k] = v
		}
	}
	ovj, _ := json.Marshal(map[string]interface{}{"Replace": repl})
	ovp := filepath.Join(dir, "overlay.json")
	os.WriteFile(ovp, ovj, 0o644)
	bin := filepath.Join(dir, "replay.test")
	cmd := exec.Command("go1.26.8", "test", "-c", "-vet=off", "-overlay", ovp, "-o", bin, "./"+pkg)
	cmd.Dir = repoDir
	cmd.Env = goEnv()
	out, err := cmd.CombinedOutput()
	if err != nil {
		r.bins[key] = ""
		r.errs[key] = fmt.Sprintf("replay build failed: %v\n%s", err, out)
		return "", fmt.Errorf("%s", r.errs[key])
	}
	r.bins[key] = bin
	return bin, nil
}

type replayOutcome struct {
	Output   string
	ExitCode int
	TimedOut bool
}

// needsSched: witnesses of stall-exploration harnesses are replayed on the
// instrumented build.
func needsSched(wit []WitnessEntry) bool {
	for _, e := range wit {
		if e.Name == "stall-after" {
			return true
		}
	}
	return false
}

func (r *replayer) run(pkg, harness string, wit []WitnessEntry, witPath string, tmo time.Duration) (*replayOutcome, error) {
	bin, err := r.build(pkg, needsSched(wit))
	if err != nil {
		return nil, err
	}
	b, _ := json.MarshalIndent(wit, "", " ")
	if err := os.WriteFile(witPath, b, 0o644); err != nil {
		return nil, err
	}
	ctx, cancel := context.WithTimeout(context.Background(), tmo)
	defer cancel()
	cmd := exec.CommandContext(ctx, bin, "-test.run", "^TestVerifReplay$", "-test.count=1", "-test.timeout", "60s")
	cmd.Dir = filepath.Join(repoDir, pkg)
	cmd.Env = append(os.Environ(), "VERIF_WITNESS="+witPath, "VERIF_HARNESS="+harness)
	out, err := cmd.CombinedOutput()
	r.n++
	oc := &replayOutcome{Output: string(out)}
	if ctx.Err() != nil {
		oc.TimedOut = true
	}
	if ee, ok := err.(*exec.ExitError); ok {
		oc.ExitCode = ee.ExitCode()
	} else if err != nil && !oc.TimedOut {
		return nil, err
	}
	return oc, nil
}

func reproduced(v *Violation, oc *replayOutcome) bool {
	switch v.Kind {
	case "assert":
		return strings.Contains(oc.Output, "VASSERT-FAIL "+v.Label)
	case "panic":
		out := strings.ReplaceAll(oc.Output, "panic: test timed out", "")
		if !strings.Contains(out, "panic:") && !strings.Contains(out, "fatal error:") {
			return false
		}
		// the same panic: the function at the top of the engine's stack appears
		// at the top of the panicking goroutine's native stack (line numbers may
		// differ in instrumented builds)
		fn := panicFunc(v.Where)
		if fn == "" {
			return true
		}
		i := strings.Index(out, "[running]:")
		if i < 0 {
			return true
		}
		lines := strings.Split(out[i:], "\n")
		for k := 1; k < len(lines); k++ {
			l := lines[k]
			// skip file:line lines and the frames a panic in the test goroutine
			// itself puts on top (recovered and re-panicked by package testing)
			if l == "" {
				break
			}
			// ... and frames of the standard library (the engine models those
			// and reports their caller)
			if strings.HasPrefix(l, "\t") || !strings.HasPrefix(l, modPath) {
				continue
			}
			return strings.Contains(l, "."+fn+"(") || strings.Contains(l, "."+fn+".func")
		}
		return false
	case "deadlock":
		return oc.TimedOut || strings.Contains(oc.Output, "all goroutines are asleep") || strings.Contains(oc.Output, "test timed out")
	}
	return false
}

// panicFunc extracts the bare function name of the first frame of an engine
// stack description such as "(*pkg/path.T).method:123 < ...".
func panicFunc(where string) string {
	f := strings.SplitN(where, " < ", 2)[0]
	if i := strings.LastIndex(f, ":"); i > 0 {
		f = f[:i]
	}
	if i := strings.LastIndex(f, "."); i >= 0 {
		f = f[i+1:]
	}
	f = strings.TrimSuffix(f, ")")
	if j := strings.Index(f, "$"); j > 0 {
		f = f[:j]
	}
	return f
}

// ---- evidence ----

type Evidence struct {
	PropertyID  string                 `json:"property_id"`
	Tier        string                 `json:"tier"`
	Seed        int                    `json:"seed"`
	Level       string                 `json:"level"`
	Coverage    map[string]interface{} `json:"coverage"`
	Assumptions []string               `json:"assumptions"`
	WallS       float64                `json:"wall_s"`
	Violations  int                    `json:"violations"`
}

func cmdCheck(args []string) {
	if len(args) < 1 {
		fmt.Println("usage: gosym check <PROP> [--tier quick|thorough] | --replay <dir>")
		os.Exit(2)
	}
	if args[0] == "--replay" {
		cmdReplay(args[1])
		return
	}
	prop := args[0]
	fs := flag.NewFlagSet("check", flag.ExitOnError)
	tier := fs.String("tier", "quick", "")
	workers := fs.Int("workers", 16, "")
	solver := fs.String("solver", "z3", "")
	only := fs.String("only", "", "run only this harness")
	noReplay := fs.Bool("no-replay", false, "")
	verbose := fs.Bool("v", false, "")
	fs.Parse(args[1:])
	if t := os.Getenv("VERIF_TIER"); t != "" && !flagSet(fs, "tier") {
		*tier = t
	}
	seed, _ := strconv.Atoi(os.Getenv("VERIF_SEED"))
	t0 := time.Now()
	props, err := loadProps()
	if err != nil {
		fmt.Fprintln(os.Stderr, "props:", err)
		os.Exit(3)
	}
	ps, ok := props[prop]
	if !ok {
		fmt.Fprintln(os.Stderr, "unknown property", prop)
		os.Exit(3)
	}
	harnessDir := filepath.Join(verifDir, "harness")
	var specs []HarnessSpec
	pkgSet := map[string]bool{}
	for _, h := range ps.Harnesses {
		if *only != "" && h.Name != *only {
			continue
		}
		if h.Tier == "thorough" && *tier != "thorough" {
			continue
		}
		if h.Tier == "quick" && *tier != "quick" {
			continue
		}
		specs = append(specs, h)
		pkgSet[h.Pkg] = true
	}
	var pkgs []string
	for p := range pkgSet {
		pkgs = append(pkgs, p)
	}
	sort.Strings(pkgs)
	P, err := loadProgram(harnessDir, pkgs)
	if err != nil {
		fmt.Fprintln(os.Stderr, "load:", err)
		os.Exit(3)
	}
	loadS := time.Since(t0).Seconds()

	workDir := filepath.Join(outDir, "work", fmt.Sprintf("%s-%d", prop, os.Getpid()))
	os.MkdirAll(workDir, 0o755)
	defer os.RemoveAll(workDir)
	rp := &replayer{workDir: workDir, bins: map[string]string{}, errs: map[string]string{}, harnessDir: harnessDir}
	known := loadKnown()
	knownBy := map[string]KnownFinding{}
	for _, k := range known {
		knownBy[k.ID] = k
	}

	var results []*HarnessResult
	inconclusive := []string{}
	violLines := []string{}
	knownLines := []string{}
	nViol := 0
	tracesValidated := 0
	samples := []interface{}{}
	totalPaths, totalSteps, totalQueries, totalAsserts, totalUnsat, totalUnknown := 0, 0, 0, 0, 0, 0
	funcs := map[string]int{}
	var solverS float64
	bounds := []interface{}{}

	for _, spec := range specs {
		hr := runHarness(P, spec, *workers, *solver, *verbose)
		results = append(results, hr)
		if *verbose {
			printHR(hr, false)
		}
		totalPaths += hr.Paths
		totalSteps += hr.Steps
		totalQueries += hr.Queries
		totalAsserts += hr.Asserts
		totalUnsat += hr.AssertUnsat
		totalUnknown += hr.Unknown
		for f, n := range hr.Funcs {
			funcs[f] += n
		}
		bounds = append(bounds, map[string]interface{}{"harness": spec.Name, "unwind": hr.Spec.Unwind, "max_paths": hr.Spec.MaxPaths, "bounds": spec.Bounds,
			"paths": hr.Paths, "status": hr.Status, "wall_s": round2(hr.WallS), "queries": hr.Queries, "solver_time_s": round2(hr.SolverS)})
		for st, n := range hr.Status {
			if st != "ok" && st != "infeasible" && n > 0 {
				inconclusive = append(inconclusive, fmt.Sprintf("%s: %d paths %s (%s)", spec.Name, n, st, strings.Join(hr.Msgs, " | ")))
			}
		}
		if hr.Unknown > 0 {
			inconclusive = append(inconclusive, fmt.Sprintf("%s: %d solver unknowns", spec.Name, hr.Unknown))
		}
		if hr.Status["ok"] == 0 {
			inconclusive = append(inconclusive, fmt.Sprintf("%s: vacuous (no path completed)", spec.Name))
		}
		// cover witnesses: vacuity guard + translator validation by native replay
		covLabels := make([]string, 0, len(hr.CoverWit))
		for k := range hr.CoverWit {
			covLabels = append(covLabels, k)
		}
		sort.Strings(covLabels)
		for _, lab := range covLabels {
			wit := hr.CoverWit[lab]
			if len(samples) < 12 {
				samples = append(samples, map[string]interface{}{"harness": spec.Name, "kind": "reachability witness (solver model)", "cover": lab, "inputs": wit})
			}
			if *noReplay || strings.Contains(lab, "(virtual-time)") || strings.Contains(lab, "(schedule)") {
				// paths that need minutes of virtual time, or a particular schedule, are not replayed natively
				continue
			}
			var oc *replayOutcome
			var err error
			coverOK := false
			// the native scheduler is not under our control: a witness counts as
			// replayed if one of three attempts follows the same path
			for attempt := 0; attempt < 3 && !coverOK; attempt++ {
				oc, err = rp.run(spec.Pkg, spec.Name, wit, filepath.Join(workDir, "w.json"), 90*time.Second)
				if err != nil {
					break
				}
				coverOK = strings.Contains(oc.Output, "VCOVER "+lab) && !strings.Contains(oc.Output, "VASSERT-FAIL") && oc.ExitCode == 0
			}
			if err != nil {
				inconclusive = append(inconclusive, fmt.Sprintf("%s: replay machinery: %v", spec.Name, err))
				break
			}
			if coverOK {
				tracesValidated++
			} else {
				inconclusive = append(inconclusive, fmt.Sprintf("%s: cover witness %q does not replay natively (encoding mismatch): exit=%d out=%s", spec.Name, lab, oc.ExitCode, tail(oc.Output, 600)))
			}
		}
		// violations: grouped by (kind, label, known region[, panic site]). The
		// native run decides by itself what the environment does (codec
		// outcome, scheduling), so up to 4 different solver witnesses of a group
		// are replayed until one reproduces.
		type vgroup struct {
			key   string
			cands []*Violation
		}
		var groups []*vgroup
		gidx := map[string]*vgroup{}
		for _, v := range hr.Violations {
			key := v.Kind + "|" + v.Label + "|" + v.Known
			if v.Kind != "assert" {
				key += "|" + strings.SplitN(v.Where, " < ", 2)[0]
			}
			g := gidx[key]
			if g == nil {
				g = &vgroup{key: key}
				gidx[key] = g
				groups = append(groups, g)
			}
			wj, _ := json.Marshal(v.Witness)
			dup := false
			for _, c := range g.cands {
				cj, _ := json.Marshal(c.Witness)
				if string(cj) == string(wj) {
					dup = true
					break
				}
			}
			if !dup && len(g.cands) < 4 {
				g.cands = append(g.cands, v)
			}
		}
		for _, g := range groups {
			key := g.key
			v := g.cands[0]
			h := sha1.Sum([]byte(spec.Name + key))
			dir := filepath.Join(outDir, "replays", prop, fmt.Sprintf("%s-%s-%x", spec.Name, sanitize(v.Label), h[:4]))
			os.MkdirAll(dir, 0o755)
			witPath := filepath.Join(dir, "witness.json")
			writeMeta := func(v *Violation) {
				meta := map[string]interface{}{"property": prop, "harness": spec.Name, "pkg": spec.Pkg, "kind": v.Kind, "label": v.Label, "msg": v.Msg, "where": v.Where, "known": v.Known, "trace": v.Trace}
				mb, _ := json.MarshalIndent(meta, "", " ")
				os.WriteFile(filepath.Join(dir, "meta.json"), mb, 0o644)
			}
			writeMeta(v)
			if *noReplay {
				wb, _ := json.MarshalIndent(v.Witness, "", " ")
				os.WriteFile(witPath, wb, 0o644)
				violLines = append(violLines, fmt.Sprintf("VIOLATION property=%s replay=%s", prop, dir))
				nViol++
				continue
			}
			// the engine counts synchronisation operations, the instrumented
			// build counts instrumented statements: for a stall witness the
			// native stall point is searched in 0..24
			if needsSched(g.cands[0].Witness) {
				base := g.cands[0]
				var more []*Violation
				for kk := 0; kk <= 24; kk++ {
					w := append([]WitnessEntry{}, base.Witness...)
					same := false
					for i := range w {
						if w[i].Name == "stall-after" {
							same = w[i].Val == fmt.Sprint(kk)
							w[i].Val = fmt.Sprint(kk)
						}
					}
					if same {
						continue
					}
					c := *base
					c.Witness = w
					more = append(more, &c)
				}
				g.cands = append(g.cands[:1], more...)
			}
			var oc *replayOutcome
			var err error
			ok := false
			for _, cand := range g.cands {
				for attempt := 0; attempt < 2 && !ok; attempt++ {
					oc, err = rp.run(spec.Pkg, spec.Name, cand.Witness, witPath, 90*time.Second)
					if err != nil {
						break
					}
					tracesValidated++
					ok = reproduced(cand, oc)
				}
				if err != nil || ok {
					v = cand
					break
				}
			}
			if err != nil {
				inconclusive = append(inconclusive, fmt.Sprintf("%s: replay machinery: %v", spec.Name, err))
				continue
			}
			writeMeta(v)
			os.WriteFile(filepath.Join(dir, "native_output.txt"), []byte(oc.Output), 0o644)
			if !ok {
				inconclusive = append(inconclusive, fmt.Sprintf("%s: counterexample for %s (%s) does not reproduce natively (encoding mismatch; %d witnesses tried), see %s", spec.Name, v.Label, v.Msg, len(g.cands), dir))
				continue
			}
			if v.Known != "" {
				if k, ok := knownBy[v.Known]; ok && k.Status == "known" && k.Property == prop {
					knownLines = append(knownLines, fmt.Sprintf("KNOWN-FINDING: property=%s %s: %s", prop, k.ID, k.What))
					continue
				}
			}
			nViol++
			violLines = append(violLines, fmt.Sprintf("VIOLATION property=%s replay=%s", prop, dir))
			fmt.Printf("  violation: harness=%s kind=%s label=%s msg=%s\n", spec.Name, v.Kind, v.Label, v.Msg)
		}
		solverS += hr.SolverS
	}

	// functions of the repository that were symbolically executed
	var encoded []string
	for f := range funcs {
		if strings.Contains(f, "gammazero") && !strings.Contains(f, "Harness_") {
			encoded = append(encoded, f)
		}
	}
	sort.Strings(encoded)
	var used []string
	intrinsicsUsed.Range(func(k, v interface{}) bool { used = append(used, k.(string)); return true })
	sort.Strings(used)
	for _, hr := range results {
		if len(samples) < 16 && hr.Sample != nil {
			samples = append(samples, map[string]interface{}{"harness": hr.Spec.Name, "kind": "completed symbolic path (decision trace)", "decisions": hr.Sample})
		}
	}
	if len(samples) == 0 {
		samples = append(samples, "no path completed")
	}
	ev := Evidence{PropertyID: prop, Tier: *tier, Seed: seed, Level: "model_checking", WallS: round2(time.Since(t0).Seconds()), Violations: nViol,
		Assumptions: append(append([]string{}, ps.Assumptions...), prefixAll("outside the claim: ", ps.Outside)...)}
	for _, u := range used {
		ev.Assumptions = append(ev.Assumptions, "library model (trusted): "+u)
	}
	ev.Coverage = map[string]interface{}{
		"states":                        max1(totalPaths),
		"transitions":                   max1(totalSteps),
		"traces_validated_against_impl": tracesValidated,
		"samples":                       samples,
		"exhaustive":                    len(inconclusive) == 0,
		"explanation":                   "bounded symbolic execution of the real SSA of /repo's current tree; states = symbolic paths explored to completion, transitions = SSA instructions executed symbolically; each assertion/implicit no-panic obligation discharged by the SMT solver over all values within the stated bounds",
		"functions_encoded":             encoded,
		"harnesses":                     bounds,
		"obligations":                   totalAsserts,
		"discharged_unsat":              totalUnsat,
		"solver_queries":                totalQueries,
		"solver_time_s":                 round2(solverS),
		"solver_unknown":                totalUnknown,
		"solver":                        *solver + " (per-query timeout 6 s), fallback for unknown: one-shot cvc5 --solve-bv-as-int=sum",
		"solver_fallback_queries":       atomic.LoadInt64(&fallbackTotal),
		"solver_fallback_decided":       atomic.LoadInt64(&fallbackSolved),
		"inconclusive":                  inconclusive,
		"known_findings_reported":       knownLines,
		"load_s":                        round2(loadS),
	}
	os.MkdirAll(filepath.Join(outDir, "evidence"), 0o755)
	eb, _ := json.MarshalIndent(ev, "", " ")
	os.WriteFile(filepath.Join(outDir, "evidence", prop+".json"), eb, 0o644)

	fmt.Printf("check %s tier=%s: harnesses=%d paths=%d instrs=%d obligations=%d unsat=%d queries=%d replays=%d wall=%.1fs\n",
		prop, *tier, len(specs), totalPaths, totalSteps, totalAsserts, totalUnsat, totalQueries, tracesValidated, time.Since(t0).Seconds())
	sort.Strings(knownLines)
	for i, l := range knownLines {
		if i == 0 || knownLines[i-1] != l {
			fmt.Println(l)
		}
	}
	for _, l := range violLines {
		fmt.Println(l)
	}
	if nViol > 0 {
		os.RemoveAll(workDir)
		os.Exit(1)
	}
	if len(inconclusive) > 0 {
		for _, l := range inconclusive {
			fmt.Println("INCONCLUSIVE:", l)
		}
		os.RemoveAll(workDir)
		os.Exit(3)
	}
}

func flagSet(fs *flag.FlagSet, name string) bool {
	found := false
	fs.Visit(func(f *flag.Flag) {
		if f.Name == name {
			found = true
		}
	})
	return found
}

func prefixAll(p string, xs []string) []string {
	out := make([]string, len(xs))
	for i, x := range xs {
		out[i] = p + x
	}
	return out
}

func max1(n int) int {
	if n < 1 {
		return 1
	}
	return n
}

func round2(f float64) float64 { return float64(int(f*100)) / 100 }

func tail(s string, n int) string {
	if len(s) > n {
		return s[len(s)-n:]
	}
	return s
}

// cmdReplay re-runs the native replay of a recorded counterexample directory.
func cmdReplay(dir string) {
	mb, err := os.ReadFile(filepath.Join(dir, "meta.json"))
	if err != nil {
		fmt.Fprintln(os.Stderr, err)
		os.Exit(3)
	}
	var meta struct {
		Property, Harness, Pkg, Kind, Label, Msg string
	}
	json.Unmarshal(mb, &meta)
	var wit []WitnessEntry
	wb, _ := os.ReadFile(filepath.Join(dir, "witness.json"))
	json.Unmarshal(wb, &wit)
	workDir := filepath.Join(outDir, "work", fmt.Sprintf("replay-%d", os.Getpid()))
	os.MkdirAll(workDir, 0o755)
	defer os.RemoveAll(workDir)
	rp := &replayer{workDir: workDir, bins: map[string]string{}, errs: map[string]string{}, harnessDir: filepath.Join(verifDir, "harness")}
	oc, err := rp.run(meta.Pkg, meta.Harness, wit, filepath.Join(workDir, "w.json"), 90*time.Second)
	if err != nil {
		fmt.Fprintln(os.Stderr, err)
		os.RemoveAll(workDir)
		os.Exit(3)
	}
	fmt.Print(oc.Output)
	v := &Violation{Kind: meta.Kind, Label: meta.Label}
	if reproduced(v, oc) {
		fmt.Printf("VIOLATION property=%s replay=%s\n", meta.Property, dir)
		os.RemoveAll(workDir)
		os.Exit(1)
	}
	fmt.Println("not reproduced on the current tree")
}
