package main

// Model of the part of package reflect used by wamp.NormalizeDict, wamp.AsList
// and transport/serialize (list <-> message layer). reflect.Value and
// reflect.Type are engine-native objects; type relations are answered by
// go/types (AssignableTo / ConvertibleTo) on static types.

import (
	"fmt"
	"go/token"
	"go/types"
	"reflect"

	"golang.org/x/tools/go/ssa"
)

type rval struct {
	T    types.Type // static type (nil => invalid Value)
	V    Value
	Addr *Value // settable location, if any
	mapm *MapV  // for values obtained by MapIndex (not settable)
}

var nativeRTypeT = types.NewNamed(types.NewTypeName(token.NoPos, nil, "gosym.rtype", nil), types.NewStruct(nil, nil), nil)

func rtypeIface(t types.Type) Value {
	return Iface{T: nativeRTypeT, V: &Native{Kind: "rtype", Obj: t}}
}

func mkRV(r *rval) Value { return &Native{Kind: "rvalue", Obj: r} }

func getRV(x *Exec, v Value) *rval {
	n, ok := v.(*Native)
	if !ok || n.Kind != "rvalue" {
		// zero reflect.Value
		return &rval{}
	}
	return n.Obj.(*rval)
}

func kindOf(t types.Type) reflect.Kind {
	if t == nil {
		return reflect.Invalid
	}
	switch u := under(t).(type) {
	case *types.Basic:
		switch u.Kind() {
		case types.Bool:
			return reflect.Bool
		case types.Int:
			return reflect.Int
		case types.Int8:
			return reflect.Int8
		case types.Int16:
			return reflect.Int16
		case types.Int32:
			return reflect.Int32
		case types.Int64:
			return reflect.Int64
		case types.Uint:
			return reflect.Uint
		case types.Uint8:
			return reflect.Uint8
		case types.Uint16:
			return reflect.Uint16
		case types.Uint32:
			return reflect.Uint32
		case types.Uint64:
			return reflect.Uint64
		case types.Uintptr:
			return reflect.Uintptr
		case types.Float32:
			return reflect.Float32
		case types.Float64:
			return reflect.Float64
		case types.String:
			return reflect.String
		case types.UnsafePointer:
			return reflect.UnsafePointer
		}
	case *types.Array:
		return reflect.Array
	case *types.Chan:
		return reflect.Chan
	case *types.Signature:
		return reflect.Func
	case *types.Interface:
		return reflect.Interface
	case *types.Map:
		return reflect.Map
	case *types.Pointer:
		return reflect.Pointer
	case *types.Slice:
		return reflect.Slice
	case *types.Struct:
		return reflect.Struct
	}
	return reflect.Invalid
}

func kindTerm(k reflect.Kind) *Term { return MkBV(64, uint64(k)) }

func (x *Exec) rvInterface(r *rval) Value {
	if r.T == nil {
		x.goPanic(x.cur, Iface{T: runtimeErrT, V: MkStr("reflect: call of Value.Interface on zero Value")}, "reflect: call of reflect.Value.Interface on zero Value", true)
		return Iface{}
	}
	if _, ok := under(r.T).(*types.Interface); ok {
		return r.V // already an interface value
	}
	return Iface{T: r.T, V: copyVal(r.V)}
}

func (x *Exec) rvSet(dst *rval, src *rval) {
	if dst.Addr == nil {
		x.goPanic(x.cur, Iface{T: runtimeErrT, V: MkStr("reflect: Set using unaddressable value")}, "reflect: reflect.Value.Set using unaddressable value", true)
		return
	}
	if src.T == nil || !types.AssignableTo(src.T, dst.T) {
		x.goPanic(x.cur, Iface{T: runtimeErrT, V: MkStr("reflect.Set: value not assignable")}, fmt.Sprintf("reflect.Set: value of type %v is not assignable to type %v", src.T, dst.T), true)
		return
	}
	v := src.V
	if _, dstI := under(dst.T).(*types.Interface); dstI {
		if _, srcI := under(src.T).(*types.Interface); !srcI {
			v = Iface{T: src.T, V: copyVal(src.V)}
		}
	}
	storeVal(dst.Addr, v)
	dst.V = v
}

func registerReflect() {
	reg("reflect.ValueOf", func(x *Exec, g *G, a []Value) Value {
		iv := a[0].(Iface)
		if iv.T == nil {
			return mkRV(&rval{})
		}
		return mkRV(&rval{T: iv.T, V: iv.V})
	})
	reg("reflect.TypeOf", func(x *Exec, g *G, a []Value) Value {
		iv := a[0].(Iface)
		if iv.T == nil {
			return Iface{}
		}
		return rtypeIface(iv.T)
	})
	intrinsics["reflect.TypeFor"] = func(x *Exec, g *G, fn *ssa.Function, args []Value) (Value, bool) {
		ta := fn.TypeArgs()
		if len(ta) != 1 {
			x.unsupported("reflect.TypeFor without type argument")
		}
		return rtypeIface(ta[0]), true
	}
	reg("(reflect.Value).Kind", func(x *Exec, g *G, a []Value) Value { return kindTerm(kindOf(getRV(x, a[0]).T)) })
	reg("(reflect.Value).IsValid", func(x *Exec, g *G, a []Value) Value { return MkBool(getRV(x, a[0]).T != nil) })
	reg("(reflect.Value).Type", func(x *Exec, g *G, a []Value) Value {
		r := getRV(x, a[0])
		if r.T == nil {
			x.goPanic(g, Iface{T: runtimeErrT, V: MkStr("reflect: call of Value.Type on zero Value")}, "reflect: call of reflect.Value.Type on zero Value", true)
			return nil
		}
		return rtypeIface(r.T)
	})
	reg("(reflect.Value).Elem", func(x *Exec, g *G, a []Value) Value {
		r := getRV(x, a[0])
		switch kindOf(r.T) {
		case reflect.Interface:
			iv := r.V.(Iface)
			if iv.T == nil {
				return mkRV(&rval{})
			}
			return mkRV(&rval{T: iv.T, V: iv.V})
		case reflect.Pointer:
			p, ok := r.V.(*Value)
			if !ok {
				x.unsupported("reflect Elem of native pointer")
			}
			if p == nil {
				return mkRV(&rval{})
			}
			return mkRV(&rval{T: under(r.T).(*types.Pointer).Elem(), V: *p, Addr: p})
		}
		x.goPanic(g, Iface{T: runtimeErrT, V: MkStr("reflect: call of Value.Elem on non-pointer")}, "reflect: call of reflect.Value.Elem on "+kindOf(r.T).String()+" Value", true)
		return nil
	})
	reg("(reflect.Value).NumField", func(x *Exec, g *G, a []Value) Value {
		r := getRV(x, a[0])
		st, ok := under(r.T).(*types.Struct)
		if !ok {
			x.goPanic(g, Iface{T: runtimeErrT, V: MkStr("reflect: NumField of non-struct")}, "reflect: call of reflect.Value.NumField on "+kindOf(r.T).String()+" Value", true)
			return nil
		}
		return MkBV(64, uint64(st.NumFields()))
	})
	reg("(reflect.Value).Field", func(x *Exec, g *G, a []Value) Value {
		r := getRV(x, a[0])
		st, ok := under(r.T).(*types.Struct)
		if !ok {
			x.goPanic(g, Iface{T: runtimeErrT, V: MkStr("reflect: Field of non-struct")}, "reflect: call of reflect.Value.Field on "+kindOf(r.T).String()+" Value", true)
			return nil
		}
		i := x.concInt(a[1], "reflect Field index")
		if i < 0 || i >= st.NumFields() {
			x.goPanic(g, Iface{T: runtimeErrT, V: MkStr("reflect: Field index out of range")}, "reflect: Field index out of range", true)
			return nil
		}
		var sv StructV
		var addr *Value
		if r.Addr != nil {
			sv = (*r.Addr).(StructV)
			addr = &sv[i]
		} else {
			sv = r.V.(StructV)
		}
		return mkRV(&rval{T: st.Field(i).Type(), V: sv[i], Addr: addr})
	})
	reg("(reflect.Value).Len", func(x *Exec, g *G, a []Value) Value {
		r := getRV(x, a[0])
		v := r.V
		if r.Addr != nil {
			v = *r.Addr
		}
		switch vv := v.(type) {
		case SliceV:
			return MkBV(64, uint64(len(vv.A)))
		case *MapV:
			if vv == nil {
				return MkBV(64, 0)
			}
			return MkBV(64, uint64(vv.Len()))
		case *Str:
			return MkBV(64, uint64(vv.Len()))
		case ArrayV:
			return MkBV(64, uint64(len(vv)))
		case *ChanV:
			if vv == nil {
				return MkBV(64, 0)
			}
			return MkBV(64, uint64(len(vv.Buf)))
		}
		x.goPanic(g, Iface{T: runtimeErrT, V: MkStr("reflect: call of Value.Len")}, "reflect: call of reflect.Value.Len on "+kindOf(r.T).String()+" Value", true)
		return nil
	})
	reg("(reflect.Value).Index", func(x *Exec, g *G, a []Value) Value {
		r := getRV(x, a[0])
		v := r.V
		if r.Addr != nil {
			v = *r.Addr
		}
		i := x.concInt(a[1], "reflect Index")
		switch vv := v.(type) {
		case SliceV:
			if i < 0 || i >= len(vv.A) {
				x.goPanic(g, Iface{T: runtimeErrT, V: MkStr("reflect: slice index out of range")}, "reflect: slice index out of range", true)
				return nil
			}
			return mkRV(&rval{T: under(r.T).(*types.Slice).Elem(), V: vv.A[i], Addr: &vv.A[i]})
		case ArrayV:
			return mkRV(&rval{T: under(r.T).(*types.Array).Elem(), V: vv[i]})
		}
		x.unsupported("reflect Index on %T", v)
		return nil
	})
	reg("(reflect.Value).MapKeys", func(x *Exec, g *G, a []Value) Value {
		r := getRV(x, a[0])
		mt, ok := under(r.T).(*types.Map)
		if !ok {
			x.goPanic(g, Iface{T: runtimeErrT, V: MkStr("reflect: MapKeys of non-map")}, "reflect: call of reflect.Value.MapKeys on "+kindOf(r.T).String()+" Value", true)
			return nil
		}
		v := r.V
		if r.Addr != nil {
			v = *r.Addr
		}
		m := v.(*MapV)
		var out []Value
		if m != nil {
			for _, e := range m.Entries {
				if !e.Deleted {
					out = append(out, mkRV(&rval{T: mt.Key(), V: e.K}))
				}
			}
		}
		return SliceV{A: out, Nil: out == nil}
	})
	reg("(reflect.Value).MapIndex", func(x *Exec, g *G, a []Value) Value {
		r := getRV(x, a[0])
		k := getRV(x, a[1])
		mt := under(r.T).(*types.Map)
		v := r.V
		if r.Addr != nil {
			v = *r.Addr
		}
		m := v.(*MapV)
		key := k.V
		if _, ki := under(mt.Key()).(*types.Interface); ki {
			if _, si := under(k.T).(*types.Interface); !si {
				key = Iface{T: k.T, V: k.V}
			}
		}
		e := x.mapFind(m, key)
		if e == nil {
			return mkRV(&rval{})
		}
		return mkRV(&rval{T: mt.Elem(), V: e.V})
	})
	reg("(reflect.Value).SetMapIndex", func(x *Exec, g *G, a []Value) Value {
		r := getRV(x, a[0])
		k := getRV(x, a[1])
		e := getRV(x, a[2])
		mt := under(r.T).(*types.Map)
		v := r.V
		if r.Addr != nil {
			v = *r.Addr
		}
		m := v.(*MapV)
		if m == nil {
			x.runtimePanic("assignment to entry in nil map")
			return nil
		}
		key := k.V
		if _, ki := under(mt.Key()).(*types.Interface); ki {
			if _, si := under(k.T).(*types.Interface); !si {
				key = Iface{T: k.T, V: k.V}
			}
		}
		val := e.V
		if _, vi := under(mt.Elem()).(*types.Interface); vi {
			if _, si := under(e.T).(*types.Interface); !si {
				val = Iface{T: e.T, V: copyVal(e.V)}
			}
		}
		x.mapSet(m, key, val)
		return nil
	})
	reg("(reflect.Value).Interface", func(x *Exec, g *G, a []Value) Value { return x.rvInterface(getRV(x, a[0])) })
	reg("(reflect.Value).String", func(x *Exec, g *G, a []Value) Value {
		r := getRV(x, a[0])
		if s, ok := r.V.(*Str); ok {
			return s
		}
		return MkStr("<" + fmt.Sprint(r.T) + " Value>")
	})
	reg("(reflect.Value).IsNil", func(x *Exec, g *G, a []Value) Value {
		r := getRV(x, a[0])
		v := r.V
		if r.Addr != nil {
			v = *r.Addr
		}
		switch vv := v.(type) {
		case *Value:
			return MkBool(vv == nil)
		case *MapV:
			return MkBool(vv == nil)
		case SliceV:
			return MkBool(vv.Nil)
		case Iface:
			return MkBool(vv.T == nil)
		case *ChanV:
			return MkBool(vv == nil)
		case *Closure:
			return MkBool(vv == nil)
		}
		x.unsupported("reflect IsNil on %T", v)
		return nil
	})
	reg("(reflect.Value).CanSet", func(x *Exec, g *G, a []Value) Value { return MkBool(getRV(x, a[0]).Addr != nil) })
	reg("(reflect.Value).Set", func(x *Exec, g *G, a []Value) Value {
		x.rvSet(getRV(x, a[0]), getRV(x, a[1]))
		return nil
	})
	reg("(reflect.Value).Convert", func(x *Exec, g *G, a []Value) Value {
		r := getRV(x, a[0])
		tt := a[1].(Iface).V.(*Native).Obj.(types.Type)
		if r.T == nil || !types.ConvertibleTo(r.T, tt) {
			x.goPanic(g, Iface{T: runtimeErrT, V: MkStr("reflect.Value.Convert: not convertible")}, fmt.Sprintf("reflect.Value.Convert: value of type %v cannot be converted to type %v", r.T, tt), true)
			return nil
		}
		if _, ti := under(tt).(*types.Interface); ti {
			if _, si := under(r.T).(*types.Interface); si {
				return mkRV(&rval{T: tt, V: r.V})
			}
			return mkRV(&rval{T: tt, V: Iface{T: r.T, V: copyVal(r.V)}})
		}
		return mkRV(&rval{T: tt, V: x.convert(r.T, tt, r.V)})
	})
	reg("(reflect.Value).Int", func(x *Exec, g *G, a []Value) Value { return Sext(getRV(x, a[0]).V.(*Term), 64) })
	reg("(reflect.Value).Uint", func(x *Exec, g *G, a []Value) Value { return Zext(getRV(x, a[0]).V.(*Term), 64) })
	reg("(reflect.Value).Float", func(x *Exec, g *G, a []Value) Value { return FPToFP(getRV(x, a[0]).V.(*Term), 64) })
	reg("(reflect.Value).Bool", func(x *Exec, g *G, a []Value) Value { return getRV(x, a[0]).V })
	reg("reflect.MakeMap", func(x *Exec, g *G, a []Value) Value {
		tt := a[0].(Iface).V.(*Native).Obj.(types.Type)
		mt := under(tt).(*types.Map)
		return mkRV(&rval{T: tt, V: &MapV{KT: mt.Key(), VT: mt.Elem()}})
	})
	reg("reflect.MakeSlice", func(x *Exec, g *G, a []Value) Value {
		tt := a[0].(Iface).V.(*Native).Obj.(types.Type)
		n := x.concInt(a[1], "MakeSlice len")
		c := x.concInt(a[2], "MakeSlice cap")
		et := under(tt).(*types.Slice).Elem()
		arr := make([]Value, n, c)
		for i := range arr {
			arr[i] = zero(et)
		}
		return mkRV(&rval{T: tt, V: SliceV{A: arr}})
	})
	reg("reflect.Zero", func(x *Exec, g *G, a []Value) Value {
		tt := a[0].(Iface).V.(*Native).Obj.(types.Type)
		return mkRV(&rval{T: tt, V: zero(tt)})
	})
	reg("(reflect.StructTag).Get", func(x *Exec, g *G, a []Value) Value {
		tag, ok1 := x.concStr(a[0], "tag")
		key, ok2 := x.concStr(a[1], "key")
		if !ok1 || !ok2 {
			x.unsupported("symbolic struct tag")
		}
		return MkStr(reflect.StructTag(tag).Get(key))
	})
	reg("(reflect.Kind).String", func(x *Exec, g *G, a []Value) Value {
		t := a[0].(*Term)
		if !t.IsConst() {
			return &Str{Opaque: true}
		}
		return MkStr(reflect.Kind(t.U).String())
	})
	intrinsicPrefix["(reflect.Value)."] = func(x *Exec, g *G, fn *ssa.Function, args []Value) (Value, bool) {
		x.unsupported("reflect.Value method %s not modelled", fn)
		return nil, true
	}
}

func (x *Exec) structFieldType() *types.Struct {
	return under(x.P.ssa.ImportedPackage("reflect").Pkg.Scope().Lookup("StructField").Type()).(*types.Struct)
}

func (x *Exec) rtypeMethod(t types.Type, name string, args []Value) Value {
	switch name {
	case "Kind":
		return kindTerm(kindOf(t))
	case "String", "Name":
		return MkStr(types.TypeString(t, func(p *types.Package) string { return p.Name() }))
	case "AssignableTo":
		o := args[0].(Iface).V.(*Native).Obj.(types.Type)
		return MkBool(types.AssignableTo(t, o))
	case "ConvertibleTo":
		o := args[0].(Iface).V.(*Native).Obj.(types.Type)
		return MkBool(types.ConvertibleTo(t, o))
	case "Elem":
		switch u := under(t).(type) {
		case *types.Pointer:
			return rtypeIface(u.Elem())
		case *types.Slice:
			return rtypeIface(u.Elem())
		case *types.Array:
			return rtypeIface(u.Elem())
		case *types.Map:
			return rtypeIface(u.Elem())
		case *types.Chan:
			return rtypeIface(u.Elem())
		}
		x.goPanic(x.cur, Iface{T: runtimeErrT, V: MkStr("reflect: Elem of invalid type")}, "reflect: Elem of invalid type "+t.String(), true)
		return nil
	case "Key":
		if m, ok := under(t).(*types.Map); ok {
			return rtypeIface(m.Key())
		}
		x.goPanic(x.cur, Iface{T: runtimeErrT, V: MkStr("reflect: Key of non-map type")}, "reflect: Key of non-map type "+t.String(), true)
		return nil
	case "NumField":
		if st, ok := under(t).(*types.Struct); ok {
			return MkBV(64, uint64(st.NumFields()))
		}
		x.goPanic(x.cur, Iface{T: runtimeErrT, V: MkStr("reflect: NumField of non-struct type")}, "reflect: NumField of non-struct type "+t.String(), true)
		return nil
	case "Field":
		st, ok := under(t).(*types.Struct)
		if !ok {
			x.goPanic(x.cur, Iface{T: runtimeErrT, V: MkStr("reflect: Field of non-struct type")}, "reflect: Field of non-struct type "+t.String(), true)
			return nil
		}
		i := x.concInt(args[0], "Type.Field index")
		sf := x.structFieldType()
		out := make(StructV, sf.NumFields())
		for j := 0; j < sf.NumFields(); j++ {
			out[j] = zero(sf.Field(j).Type())
			switch sf.Field(j).Name() {
			case "Name":
				out[j] = MkStr(st.Field(i).Name())
			case "Type":
				out[j] = rtypeIface(st.Field(i).Type())
			case "Tag":
				out[j] = MkStr(st.Tag(i))
			case "Anonymous":
				out[j] = MkBool(st.Field(i).Embedded())
			}
		}
		return out
	case "Comparable":
		return MkBool(types.Comparable(t))
	}
	x.unsupported("reflect.Type method %s", name)
	return nil
}
