package main

// Path exploration by re-execution with decision prefixes; solver interaction.

import (
	"fmt"
	"os"
	"os/exec"
	"sort"
	"strings"
	"sync"
	"sync/atomic"
	"time"
)

type PathSolver struct {
	s       *Solver
	pr      *Printer
	buf     strings.Builder
	base    strings.Builder // everything asserted/defined at base level on this path
	pcN     int             // number of pc conjuncts already sent
	queries int
	Fallbacks, FallbackSolved int
}

func (ps *PathSolver) begin() {
	ps.s.Reset()
	ps.buf.Reset()
	ps.base.Reset()
	ps.pr = NewPrinter(&ps.buf)
	ps.pcN = 0
}

// flush sends pending base-level text (declarations, definitions, pc asserts)
func (ps *PathSolver) flush() {
	if ps.buf.Len() > 0 {
		ps.s.Send(ps.buf.String())
		ps.base.WriteString(ps.buf.String())
		ps.buf.Reset()
	}
}

// fallback: one-shot cvc5 with the integer encoding of bit-vectors, which
// decides multiply/divide-by-constant queries that bit-blasting does not.
func (ps *PathSolver) fallback(query string, vars []*Term) (string, map[string]uint64) {
	ps.Fallbacks++
	atomic.AddInt64(&fallbackTotal, 1)
	f, err := os.CreateTemp("", "gosym-fb-*.smt2")
	if err != nil {
		return "unknown", nil
	}
	defer os.Remove(f.Name())
	var sb strings.Builder
	sb.WriteString("(set-logic ALL)\n(set-option :produce-models true)\n")
	sb.WriteString(ps.base.String())
	sb.WriteString(query)
	sb.WriteString("(check-sat)\n")
	if len(vars) > 0 {
		sb.WriteString("(get-value (")
		for _, v := range vars {
			sb.WriteString(v.Name + " ")
		}
		sb.WriteString("))\n")
	}
	f.WriteString(sb.String())
	f.Close()
	out, _ := exec.Command("cvc5", "--solve-bv-as-int=sum", "--tlimit=60000", "--fp-exp", f.Name()).Output()
	txt := strings.TrimSpace(string(out))
	lines := strings.SplitN(txt, "\n", 2)
	if len(lines) == 0 {
		return "unknown", nil
	}
	res := strings.TrimSpace(lines[0])
	if res != "sat" && res != "unsat" {
		return "unknown", nil
	}
	ps.FallbackSolved++
	atomic.AddInt64(&fallbackSolved, 1)
	var m map[string]uint64
	if res == "sat" && len(lines) > 1 && len(vars) > 0 {
		m = map[string]uint64{}
		toks := tokenize(lines[1])
		pos := 0
		node := parseSexp(toks, &pos)
		for _, pair := range node.kids {
			if len(pair.kids) == 2 {
				m[pair.kids[0].atom] = sexpValue(pair.kids[1])
			}
		}
	}
	return res, m
}

var fallbackTotal, fallbackSolved int64

type inputRec struct {
	Name string
	Kind string // "bool","bv8".., "choice", "fp64", "str"
	Term *Term  // symbolic var (nil for choice)
	Terms []*Term // for strings: bytes
	Choice int
	N      int
	Env    bool
}

type Violation struct {
	Label   string
	Kind    string // "assert","panic","deadlock"
	Msg     string
	Where   string
	Witness []WitnessEntry
	Trace   []int
	Known   string
}

type WitnessEntry struct {
	Name string `json:"name"`
	Kind string `json:"kind"`
	Val  string `json:"val"`
}

type PathResult struct {
	Status      string
	Msg         string
	Steps       int
	Queries     int
	SolverS     float64
	Unknown     int
	Violations  []*Violation
	Covers      []string
	CoverWit    map[string][]WitnessEntry
	Asserts     int
	AssertUnsat int
	Trace       []int
	Funcs       map[string]int
	Notes       []string
	Sample      string
}

// ---- choose ----

func (x *Exec) pcAssume(c *Term) {
	if c.IsTrue() {
		return
	}
	x.pc = append(x.pc, c)
}

// sendPC makes sure all pc conjuncts are asserted in the solver.
func (x *Exec) sendPC() {
	ps := x.sv
	for ps.pcN < len(x.pc) {
		r := ps.pr.Ref(x.pc[ps.pcN])
		fmt.Fprintf(&ps.buf, "(assert %s)\n", r)
		ps.pcN++
	}
}

// checkSat asks whether pc ∧ c is satisfiable.
func (x *Exec) checkSat(c *Term) string {
	if c.IsFalse() {
		return "unsat"
	}
	// cheap model-based test
	if x.model != nil {
		if Eval(c, x.model).IsTrue() {
			return "sat"
		}
	}
	ps := x.sv
	x.sendPC()
	r := ps.pr.Ref(c)
	ps.flush()
	ps.s.Send(fmt.Sprintf("(push 1)\n(assert %s)\n", r))
	res := ps.s.CheckSat()
	x.res.Queries++
	if res == "unknown" {
		ps.s.Send("(pop 1)\n")
		fr, fm := ps.fallback(fmt.Sprintf("(assert %s)\n", r), x.allVars())
		if fr == "unknown" {
			x.res.Unknown++
		} else if fr == "sat" && fm != nil && x.H.UseModelCache {
			x.model = fm
			x.modelPC = len(x.pc)
		}
		return fr
	}
	if res == "sat" && x.H.UseModelCache {
		if m, err := ps.s.GetValues(x.allVars()); err == nil {
			x.model = m
			x.modelPC = len(x.pc)
		}
	}
	ps.s.Send("(pop 1)\n")
	return res
}

func (x *Exec) allVars() []*Term {
	var vs []*Term
	for name, s := range x.sv.pr.decl {
		vs = append(vs, MkVar(name, s))
	}
	sort.Slice(vs, func(i, j int) bool { return vs[i].Name < vs[j].Name })
	return vs
}

// model for pc ∧ c (c may be nil)
func (x *Exec) getModel(c *Term) (map[string]uint64, string) {
	ps := x.sv
	x.sendPC()
	q := ""
	if c != nil {
		r := ps.pr.Ref(c)
		q = fmt.Sprintf("(assert %s)\n", r)
	}
	ps.flush()
	ps.s.Send("(push 1)\n" + q)
	res := ps.s.CheckSat()
	x.res.Queries++
	if res == "unknown" {
		ps.s.Send("(pop 1)\n")
		fr, fm := ps.fallback(q, x.allVars())
		return fm, fr
	}
	var m map[string]uint64
	if res == "sat" {
		var err error
		m, err = ps.s.GetValues(x.allVars())
		if err != nil {
			res = "unknown"
		}
	}
	ps.s.Send("(pop 1)\n")
	return m, res
}

func (x *Exec) assume(c *Term) {
	x.pcAssume(c)
	if x.model != nil && !Eval(c, x.model).IsTrue() {
		x.model = nil
	}
}

// choose picks one of the alternatives (conds are assumed exhaustive under pc).
func (x *Exec) choose(conds []*Term, tag string) int {
	// constant resolution
	nT, idx := 0, -1
	allConst := true
	for i, c := range conds {
		if c.IsTrue() {
			nT++
			if idx < 0 {
				idx = i
			}
		} else if !c.IsFalse() {
			allConst = false
		}
	}
	if allConst && nT >= 1 {
		return idx
	}
	if x.tpos < len(x.prefix) {
		i := x.prefix[x.tpos]
		x.tpos++
		x.trace = append(x.trace, i)
		if i >= len(conds) {
			panic(fmt.Sprintf("trace divergence at %d (%s): choice %d of %d", x.tpos-1, tag, i, len(conds)))
		}
		x.assume(conds[i])
		return i
	}
	var feas []int
	for i, c := range conds {
		if c.IsFalse() {
			continue
		}
		r := x.checkSat(c)
		if r != "unsat" {
			feas = append(feas, i)
		}
	}
	if len(feas) == 0 {
		x.end("infeasible", "no feasible alternative at "+tag)
	}
	take := feas[0]
	for _, o := range feas[1:] {
		alt := append(append([]int{}, x.trace...), o)
		x.H.push(alt)
	}
	x.trace = append(x.trace, take)
	x.tpos++
	x.assume(conds[take])
	return take
}

// chooseFree: unconstrained nondeterministic choice among n alternatives.
func (x *Exec) chooseFree(n int, tag string) int {
	if n <= 1 {
		return 0
	}
	if x.tpos < len(x.prefix) {
		i := x.prefix[x.tpos]
		x.tpos++
		x.trace = append(x.trace, i)
		return i
	}
	for o := 1; o < n; o++ {
		alt := append(append([]int{}, x.trace...), o)
		x.H.push(alt)
	}
	x.trace = append(x.trace, 0)
	x.tpos++
	return 0
}

// ---- harness-level exploration ----

type Harness struct {
	Name     string
	PkgPath  string
	Prop     string
	P        *Program
	MaxSteps int
	Unwind   int
	MaxPaths int
	Preempt  int
	UseModelCache bool
	SolverKind string
	SolverTmo  int
	Workers  int
	Deadline time.Time

	mu      sync.Mutex
	queue   [][]int
	active  int
	cond    *sync.Cond
	results []*PathResult
	nPaths  int64
	stopped bool
	ownPkgs map[string]bool
	vrtPkg  string
	Verbose bool
	coverDone map[string]bool
}

func (h *Harness) push(prefix []int) {
	h.mu.Lock()
	h.queue = append(h.queue, prefix)
	h.mu.Unlock()
	h.cond.Signal()
}

func (h *Harness) pop() ([]int, bool) {
	h.mu.Lock()
	defer h.mu.Unlock()
	for {
		if h.stopped {
			return nil, false
		}
		if n := len(h.queue); n > 0 {
			p := h.queue[n-1] // DFS order
			h.queue = h.queue[:n-1]
			h.active++
			return p, true
		}
		if h.active == 0 {
			h.cond.Broadcast()
			return nil, false
		}
		h.cond.Wait()
	}
}

func (h *Harness) done(r *PathResult) {
	h.mu.Lock()
	h.active--
	h.results = append(h.results, r)
	if h.active == 0 && len(h.queue) == 0 {
		h.cond.Broadcast()
	}
	h.mu.Unlock()
}

func (h *Harness) Run() []*PathResult {
	h.cond = sync.NewCond(&h.mu)
	h.queue = [][]int{{}}
	var wg sync.WaitGroup
	for w := 0; w < h.Workers; w++ {
		wg.Add(1)
		go func() {
			defer wg.Done()
			sv, err := NewSolver(h.SolverKind, h.SolverTmo)
			if err != nil {
				fmt.Fprintln(os.Stderr, "solver:", err)
				return
			}
			defer sv.Close()
			ps := &PathSolver{s: sv}
			for {
				prefix, ok := h.pop()
				if !ok {
					return
				}
				n := atomic.AddInt64(&h.nPaths, 1)
				var r *PathResult
				if int(n) > h.MaxPaths || time.Now().After(h.Deadline) {
					r = &PathResult{Status: "limit", Msg: "path/time budget exhausted", Trace: prefix}
					h.mu.Lock()
					h.stopped = true
					h.mu.Unlock()
					h.cond.Broadcast()
				} else {
					r = h.runPath(ps, prefix)
				}
				h.done(r)
			}
		}()
	}
	wg.Wait()
	return h.results
}
