package main

import (
	"fmt"
	"go/types"
	"strings"

	"golang.org/x/tools/go/ssa"
)

// Value is one of:
//   *Term            bool / integer / float scalars
//   *Str             string (concrete, or fixed length with symbolic bytes)
//   StructV, ArrayV  aggregates (value semantics; copied on load/store)
//   SliceV           slice header sharing a backing []Value
//   *Value           pointer (nil pointer = (*Value)(nil))
//   *MapV            map (nil map = (*MapV)(nil))
//   *ChanV           channel
//   Iface            interface value
//   *Closure         func value (nil func = (*Closure)(nil))
//   TupleV           multi-value result
//   *Native          engine-native object behind a pointer/interface (ctx, regexp, reflect...)
type Value interface{}

type StructV []Value
type ArrayV []Value
type TupleV []Value

type SliceV struct {
	A   []Value // A[0:len] visible; cap(A) = capacity
	Nil bool
}

type Iface struct {
	T types.Type // nil => nil interface
	V Value
}

type Closure struct {
	Fn   *ssa.Function
	Env  []Value
	Nat  func(x *Exec, args []Value) Value // native closure (engine-made funcs)
	Name string
}

type Native struct {
	Kind string
	Obj  interface{}
}

type Str struct {
	S      string  // concrete content when B == nil
	B      []*Term // symbolic bytes (BV8 each)
	Opaque bool    // unknown content (formatting of symbolic values)
}

func MkStr(s string) *Str { return &Str{S: s} }

func (s *Str) Len() int {
	if s.B != nil {
		return len(s.B)
	}
	return len(s.S)
}

func (s *Str) IsConc() bool { return s.B == nil && !s.Opaque }

func (s *Str) Byte(i int) *Term {
	if s.B != nil {
		return s.B[i]
	}
	return MkBV(8, uint64(s.S[i]))
}

func (s *Str) Bytes() []*Term {
	if s.B != nil {
		return s.B
	}
	out := make([]*Term, len(s.S))
	for i := 0; i < len(s.S); i++ {
		out[i] = MkBV(8, uint64(s.S[i]))
	}
	return out
}

func StrFromBytes(b []*Term) *Str {
	allc := true
	for _, t := range b {
		if !t.IsConst() {
			allc = false
			break
		}
	}
	if allc {
		bs := make([]byte, len(b))
		for i, t := range b {
			bs[i] = byte(t.U)
		}
		return &Str{S: string(bs)}
	}
	if len(b) == 0 {
		return &Str{}
	}
	return &Str{B: b}
}

func StrConcat(a, b *Str) *Str {
	if a.Opaque || b.Opaque {
		return &Str{Opaque: true}
	}
	if a.B == nil && b.B == nil {
		return &Str{S: a.S + b.S}
	}
	return StrFromBytes(append(append([]*Term{}, a.Bytes()...), b.Bytes()...))
}

func StrSlice(s *Str, lo, hi int) *Str {
	if s.B == nil {
		return &Str{S: s.S[lo:hi], Opaque: s.Opaque}
	}
	return StrFromBytes(s.B[lo:hi])
}

func StrEq(a, b *Str) *Term {
	if a.Len() != b.Len() {
		return TFalse
	}
	if a.B == nil && b.B == nil {
		return MkBool(a.S == b.S)
	}
	cs := make([]*Term, 0, a.Len())
	for i := 0; i < a.Len(); i++ {
		cs = append(cs, Eq(a.Byte(i), b.Byte(i)))
	}
	return And(cs...)
}

// StrLess: a < b lexicographically (bytewise).
func StrLess(a, b *Str) *Term {
	if a.B == nil && b.B == nil {
		return MkBool(a.S < b.S)
	}
	n := a.Len()
	if b.Len() < n {
		n = b.Len()
	}
	// from the end: less_i = a[i]<b[i] or (a[i]==b[i] and less_{i+1}); base: len(a)<len(b)
	res := MkBool(a.Len() < b.Len())
	for i := n - 1; i >= 0; i-- {
		res = Or(Ult(a.Byte(i), b.Byte(i)), And(Eq(a.Byte(i), b.Byte(i)), res))
	}
	return res
}

func (s *Str) String() string {
	if s.Opaque {
		return "<opaque>"
	}
	if s.B == nil {
		return fmt.Sprintf("%q", s.S)
	}
	return fmt.Sprintf("<sym[%d]>", len(s.B))
}

// ---- maps ----

type mapEntry struct {
	K, V    Value
	Deleted bool
}

type MapV struct {
	KT, VT  types.Type
	Entries []*mapEntry
}

func (m *MapV) Len() int {
	n := 0
	for _, e := range m.Entries {
		if !e.Deleted {
			n++
		}
	}
	return n
}

// ---- channels ----

type ChanV struct {
	ID     int
	Cap    int
	Buf    []Value
	Closed bool
	ET     types.Type
}

// ---- type helpers ----

func under(t types.Type) types.Type { return t.Underlying() }

func intWidth(b *types.Basic) (w int, signed bool, ok bool) {
	switch b.Kind() {
	case types.Int8:
		return 8, true, true
	case types.Int16:
		return 16, true, true
	case types.Int32, types.UntypedRune:
		return 32, true, true
	case types.Int64, types.Int, types.UntypedInt:
		return 64, true, true
	case types.Uint8:
		return 8, false, true
	case types.Uint16:
		return 16, false, true
	case types.Uint32:
		return 32, false, true
	case types.Uint64, types.Uint, types.Uintptr:
		return 64, false, true
	}
	return 0, false, false
}

func isFloat(b *types.Basic) (int, bool) {
	switch b.Kind() {
	case types.Float32:
		return 32, true
	case types.Float64, types.UntypedFloat:
		return 64, true
	}
	return 0, false
}

var zeroBV8 = MkBV(8, 0)
var zeroBV64 = MkBV(64, 0)

func zero(t types.Type) Value {
	switch t := t.(type) {
	case *types.Named, *types.Alias:
		return zero(t.Underlying())
	case *types.Basic:
		if t.Kind() == types.Bool || t.Kind() == types.UntypedBool {
			return TFalse
		}
		if w, _, ok := intWidth(t); ok {
			switch w {
			case 8:
				return zeroBV8
			case 64:
				return zeroBV64
			}
			return MkBV(w, 0)
		}
		if w, ok := isFloat(t); ok {
			return MkFP(w, 0)
		}
		if t.Kind() == types.String || t.Kind() == types.UntypedString {
			return MkStr("")
		}
		if t.Kind() == types.UnsafePointer {
			return (*Value)(nil)
		}
		if t.Kind() == types.UntypedNil {
			return nil
		}
		panic(fmt.Sprintf("zero: basic %v", t))
	case *types.Pointer:
		return (*Value)(nil)
	case *types.Struct:
		s := make(StructV, t.NumFields())
		for i := range s {
			s[i] = zero(t.Field(i).Type())
		}
		return s
	case *types.Array:
		a := make(ArrayV, t.Len())
		for i := range a {
			a[i] = zero(t.Elem())
		}
		return a
	case *types.Slice:
		return SliceV{Nil: true}
	case *types.Map:
		return (*MapV)(nil)
	case *types.Chan:
		return (*ChanV)(nil)
	case *types.Interface:
		return Iface{}
	case *types.Signature:
		return (*Closure)(nil)
	case *types.Tuple:
		if t.Len() == 1 {
			return zero(t.At(0).Type())
		}
		tv := make(TupleV, t.Len())
		for i := range tv {
			tv[i] = zero(t.At(i).Type())
		}
		return tv
	case *types.TypeParam:
		panic("zero of type param")
	}
	panic(fmt.Sprintf("zero: %T %v", t, t))
}

func copyVal(v Value) Value {
	switch v := v.(type) {
	case StructV:
		c := make(StructV, len(v))
		for i := range v {
			c[i] = copyVal(v[i])
		}
		return c
	case ArrayV:
		c := make(ArrayV, len(v))
		for i := range v {
			c[i] = copyVal(v[i])
		}
		return c
	}
	return v
}

// storeVal writes v into *addr preserving identity of aggregate slots (so that
// FieldAddr pointers taken earlier stay valid).
func storeVal(addr *Value, v Value) {
	switch nv := v.(type) {
	case StructV:
		if old, ok := (*addr).(StructV); ok && len(old) == len(nv) {
			for i := range nv {
				storeVal(&old[i], nv[i])
			}
			return
		}
		*addr = copyVal(nv)
	case ArrayV:
		if old, ok := (*addr).(ArrayV); ok && len(old) == len(nv) {
			for i := range nv {
				storeVal(&old[i], nv[i])
			}
			return
		}
		*addr = copyVal(nv)
	default:
		*addr = v
	}
}

func showVal(v Value) string {
	switch v := v.(type) {
	case nil:
		return "nil"
	case *Term:
		if v.IsConst() {
			if v.S.K == KBool {
				return fmt.Sprint(v.U == 1)
			}
			if v.S.K == KFP {
				return fmt.Sprint(v.Float64())
			}
			return fmt.Sprint(v.U)
		}
		return "<sym>"
	case *Str:
		return v.String()
	case StructV:
		parts := []string{}
		for _, f := range v {
			parts = append(parts, showVal(f))
		}
		return "{" + strings.Join(parts, ",") + "}"
	case Iface:
		if v.T == nil {
			return "nil"
		}
		return fmt.Sprintf("%s(%s)", types.TypeString(v.T, func(p *types.Package) string { return p.Name() }), showVal(v.V))
	case *Value:
		if v == nil {
			return "nil"
		}
		return fmt.Sprintf("&%p", v)
	case SliceV:
		parts := []string{}
		for _, f := range v.A {
			parts = append(parts, showVal(f))
		}
		return "[" + strings.Join(parts, ",") + "]"
	case *MapV:
		if v == nil {
			return "map(nil)"
		}
		parts := []string{}
		for _, e := range v.Entries {
			if !e.Deleted {
				parts = append(parts, showVal(e.K)+":"+showVal(e.V))
			}
		}
		return "map[" + strings.Join(parts, ",") + "]"
	}
	return fmt.Sprintf("%T", v)
}
