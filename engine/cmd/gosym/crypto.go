package main

// Idealised models of the cryptographic / encoding boundary used by the
// authenticators (C09). Each is part of the trusted base.

import (
	"go/types"
	"encoding/base64"
	"encoding/hex"
	"fmt"
)

type signedRec struct {
	signed []*Term // 64 signature bytes followed by the message
	priv   *Value  // identity of the private key array
}

type keyPair struct {
	pub  []*Term
	priv *Value
}

type macRec struct {
	ch  *Str
	key []*Term
	out []*Term
}

func termBytes(v Value) []*Term {
	switch s := v.(type) {
	case SliceV:
		out := make([]*Term, len(s.A))
		for i, e := range s.A {
			out[i] = e.(*Term)
		}
		return out
	case ArrayV:
		out := make([]*Term, len(s))
		for i, e := range s {
			out[i] = e.(*Term)
		}
		return out
	case *Str:
		return s.Bytes()
	}
	panic(fmt.Sprintf("termBytes %T", v))
}

func bytesSlice(bs []*Term) SliceV {
	a := make([]Value, len(bs))
	for i, b := range bs {
		a[i] = b
	}
	return SliceV{A: a}
}

func bytesEq(a, b []*Term) *Term {
	if len(a) != len(b) {
		return TFalse
	}
	cs := make([]*Term, len(a))
	for i := range a {
		cs[i] = Eq(a[i], b[i])
	}
	return And(cs...)
}

func allConst(bs []*Term) bool {
	for _, b := range bs {
		if !b.IsConst() {
			return false
		}
	}
	return true
}

func concBytes(bs []*Term) []byte {
	out := make([]byte, len(bs))
	for i, b := range bs {
		out[i] = byte(b.U)
	}
	return out
}

func hexDigit(n *Term) *Term { // n: BV8 in 0..15
	return Ite(Ult(n, MkBV(8, 10)), Add(n, MkBV(8, '0')), Add(n, MkBV(8, 'a'-10)))
}

func b64Char(s *Term) *Term { // s: BV8 in 0..63
	return Ite(Ult(s, MkBV(8, 26)), Add(s, MkBV(8, 'A')),
		Ite(Ult(s, MkBV(8, 52)), Add(s, MkBV(8, 'a'-26)),
			Ite(Ult(s, MkBV(8, 62)), Sub(s, MkBV(8, 4)), // '0' - 52 = -4
				Ite(Eq(s, MkBV(8, 62)), MkBV(8, '+'), MkBV(8, '/')))))
}

func init() {
	// ugorji codec is not encoded: the serializers' data-item functions return
	// an arbitrary outcome (error, success with a zero payload, or success
	// leaving the target untouched as for an encoded null)
	for _, sname := range []string{"JSONSerializer", "MessagePackSerializer", "CBORSerializer"} {
		base := "(*github.com/gammazero/nexus/v3/transport/serialize." + sname + ")."
		sname := sname
		reg(base+"DeserializeDataItem", func(x *Exec, g *G, a []Value) Value {
			// the encoding of null is known for each format: concrete input
			// bytes decide whether the "null" outcome applies, so that a
			// counterexample through it replays against the real codec
			nullEnc := map[string]string{"JSONSerializer": "null", "MessagePackSerializer": "\xc0", "CBORSerializer": "\xf6"}[sname]
			outcomes := 3
			if in := termBytes(a[1]); allConst(in) {
				if string(concBytes(in)) == nullEnc {
					return Iface{}
				}
				outcomes = 2
			}
			switch x.chooseFree(outcomes, "codec.deserialize") {
			case 0:
				return x.mkError(MkStr("codec: cannot decode"))
			case 2:
				// the bytes encode "null": success, the target is left as it is
				return Iface{}
			}
			iv := a[2].(Iface)
			if p, ok := iv.V.(*Value); ok && p != nil {
				if pt, ok := iv.T.(*types.Pointer); ok {
					if inner, ok := pt.Elem().(*types.Pointer); ok {
						cell := new(Value)
						*cell = zero(inner.Elem())
						*p = cell
					}
				}
			}
			return Iface{}
		})
		reg(base+"SerializeDataItem", func(x *Exec, g *G, a []Value) Value {
			if x.chooseFree(2, "codec.serialize") == 0 {
				return TupleV{SliceV{Nil: true}, x.mkError(MkStr("codec: cannot encode"))}
			}
			return TupleV{bytesSlice([]*Term{MkBV(8, 1), MkBV(8, 2)}), Iface{}}
		})
	}
	reg("encoding/hex.EncodeToString", func(x *Exec, g *G, a []Value) Value {
		bs := termBytes(a[0])
		if allConst(bs) {
			return MkStr(hex.EncodeToString(concBytes(bs)))
		}
		out := make([]*Term, 0, 2*len(bs))
		for _, b := range bs {
			out = append(out, hexDigit(LShr(b, MkBV(8, 4))), hexDigit(BAnd(b, MkBV(8, 15))))
		}
		s := StrFromBytes(out)
		x.encoded[s] = bs
		return s
	})
	reg("encoding/hex.DecodeString", func(x *Exec, g *G, a []Value) Value {
		s := a[0].(*Str)
		if s.IsConc() {
			b, err := hex.DecodeString(s.S)
			if err != nil {
				return TupleV{bytesSlice(nil), x.mkError(MkStr(err.Error()))}
			}
			bs := make([]*Term, len(b))
			for i, c := range b {
				bs[i] = MkBV(8, uint64(c))
			}
			return TupleV{bytesSlice(bs), Iface{}}
		}
		if src, ok := x.encoded[s]; ok {
			return TupleV{bytesSlice(src), Iface{}}
		}
		x.unsupported("hex.DecodeString of a symbolic string not produced by EncodeToString")
		return nil
	})
	reg("(*encoding/base64.Encoding).EncodeToString", func(x *Exec, g *G, a []Value) Value {
		bs := termBytes(a[1])
		if allConst(bs) {
			return MkStr(base64.StdEncoding.EncodeToString(concBytes(bs)))
		}
		var out []*Term
		for i := 0; i < len(bs); i += 3 {
			b0 := bs[i]
			b1, b2 := MkBV(8, 0), MkBV(8, 0)
			n := 1
			if i+1 < len(bs) {
				b1 = bs[i+1]
				n = 2
			}
			if i+2 < len(bs) {
				b2 = bs[i+2]
				n = 3
			}
			s0 := LShr(b0, MkBV(8, 2))
			s1 := BOr(Shl(BAnd(b0, MkBV(8, 3)), MkBV(8, 4)), LShr(b1, MkBV(8, 4)))
			s2 := BOr(Shl(BAnd(b1, MkBV(8, 15)), MkBV(8, 2)), LShr(b2, MkBV(8, 6)))
			s3 := BAnd(b2, MkBV(8, 63))
			out = append(out, b64Char(s0), b64Char(s1))
			if n >= 2 {
				out = append(out, b64Char(s2))
			} else {
				out = append(out, MkBV(8, '='))
			}
			if n == 3 {
				out = append(out, b64Char(s3))
			} else {
				out = append(out, MkBV(8, '='))
			}
		}
		s := StrFromBytes(out)
		x.encoded[s] = bs
		return s
	})
	reg("(*encoding/base64.Encoding).DecodeString", func(x *Exec, g *G, a []Value) Value {
		s := a[1].(*Str)
		if s.IsConc() {
			b, err := base64.StdEncoding.DecodeString(s.S)
			if err != nil {
				return TupleV{bytesSlice(nil), x.mkError(MkStr(err.Error()))}
			}
			bs := make([]*Term, len(b))
			for i, c := range b {
				bs[i] = MkBV(8, uint64(c))
			}
			return TupleV{bytesSlice(bs), Iface{}}
		}
		if src, ok := x.encoded[s]; ok {
			return TupleV{bytesSlice(src), Iface{}}
		}
		x.unsupported("base64 DecodeString of a symbolic string not produced by EncodeToString")
		return nil
	})
	reg("bytes.Equal", func(x *Exec, g *G, a []Value) Value {
		return bytesEq(termBytes(a[0]), termBytes(a[1]))
	})
	reg("crypto/hmac.Equal", func(x *Exec, g *G, a []Value) Value {
		return bytesEq(termBytes(a[0]), termBytes(a[1]))
	})
	// crypto/subtle: the timing-safe primitives are compiler intrinsics; modelled by their value contract
	reg("crypto/subtle.ConstantTimeCompare", func(x *Exec, g *G, a []Value) Value {
		return Ite(bytesEq(termBytes(a[0]), termBytes(a[1])), MkBV(64, 1), MkBV(64, 0))
	})
	reg("crypto/subtle.ConstantTimeByteEq", func(x *Exec, g *G, a []Value) Value {
		return Ite(Eq(a[0].(*Term), a[1].(*Term)), MkBV(64, 1), MkBV(64, 0))
	})
	reg("crypto/subtle.ConstantTimeEq", func(x *Exec, g *G, a []Value) Value {
		return Ite(Eq(a[0].(*Term), a[1].(*Term)), MkBV(64, 1), MkBV(64, 0))
	})
	// Idealised MAC: an injective function of (message, key).
	reg("github.com/gammazero/nexus/v3/wamp/crsign.SignChallengeBytes", func(x *Exec, g *G, a []Value) Value {
		ch := a[0].(*Str)
		if ch.Opaque {
			x.unsupported("MAC over an opaque string")
		}
		key := termBytes(a[1])
		out := make([]*Term, 32)
		for i := range out {
			out[i] = x.inputEnv(fmt.Sprintf("hmac[%d]", i), "u8", SBV8)
		}
		for _, r := range x.macs {
			same := And(StrEq(ch, r.ch), bytesEq(key, r.key))
			x.assume(Eq(same, bytesEq(out, r.out)))
		}
		x.macs = append(x.macs, &macRec{ch: ch, key: key, out: out})
		return bytesSlice(out)
	})
	// Idealised signatures (ed25519 via nacl/sign): unforgeable.
	reg("golang.org/x/crypto/nacl/sign.GenerateKey", func(x *Exec, g *G, a []Value) Value {
		pub := make(ArrayV, 32)
		priv := make(ArrayV, 64)
		pubT := make([]*Term, 32)
		for i := range pub {
			pubT[i] = x.inputEnv(fmt.Sprintf("pubkey[%d]", i), "u8", SBV8)
			pub[i] = pubT[i]
		}
		for i := range priv {
			priv[i] = MkBV(8, 0)
		}
		// freshness: a newly generated key pair differs from every earlier one
		for _, kp := range x.keyPairs {
			x.assume(Not(bytesEq(pubT, kp.pub)))
		}
		pc, vc := new(Value), new(Value)
		*pc, *vc = pub, priv
		x.keyPairs = append(x.keyPairs, &keyPair{pub: pubT, priv: vc})
		return TupleV{pc, vc, Iface{}}
	})
	reg("golang.org/x/crypto/nacl/sign.Sign", func(x *Exec, g *G, a []Value) Value {
		out := a[0].(SliceV)
		msg := termBytes(a[1])
		priv := a[2].(*Value)
		sig := make([]*Term, 64)
		for i := range sig {
			sig[i] = x.inputEnv(fmt.Sprintf("sig[%d]", i), "u8", SBV8)
		}
		signed := append(append([]*Term{}, sig...), msg...)
		x.signedMsgs = append(x.signedMsgs, &signedRec{signed: signed, priv: priv})
		res := append([]Value{}, out.A...)
		for _, b := range signed {
			res = append(res, b)
		}
		return SliceV{A: res}
	})
	reg("golang.org/x/crypto/nacl/sign.Open", func(x *Exec, g *G, a []Value) Value {
		out := a[0].(SliceV)
		signed := termBytes(a[1])
		pubp := a[2].(*Value)
		if pubp == nil {
			x.runtimePanic("nil public key")
			return nil
		}
		pub := termBytes(*pubp)
		valid := TFalse
		for _, r := range x.signedMsgs {
			for _, kp := range x.keyPairs {
				if kp.priv == r.priv {
					valid = Or(valid, And(bytesEq(signed, r.signed), bytesEq(pub, kp.pub)))
				}
			}
		}
		if len(signed) < 64 {
			return TupleV{SliceV{Nil: true}, TFalse}
		}
		isValid := valid.IsTrue()
		if !valid.IsConst() {
			isValid = x.choose([]*Term{valid, Not(valid)}, "sigvalid") == 0
		}
		if !isValid {
			return TupleV{SliceV{Nil: true}, TFalse}
		}
		res := append([]Value{}, out.A...)
		for _, b := range signed[64:] {
			res = append(res, b)
		}
		return TupleV{SliceV{A: res}, TTrue}
	})
}
