package main

// Symbolic terms: Bool, BitVec(w<=64), FP(32|64). Constructors fold constants
// so that concrete computations stay concrete.

import (
	"fmt"
	"math"
	"math/bits"
	"strings"
)

type SKind uint8

const (
	KBool SKind = iota
	KBV
	KFP
)

type Sort struct {
	K SKind
	W int
}

var (
	SBool = Sort{KBool, 0}
	SBV8  = Sort{KBV, 8}
	SBV64 = Sort{KBV, 64}
	SFP64 = Sort{KFP, 64}
	SFP32 = Sort{KFP, 32}
)

func BV(w int) Sort { return Sort{KBV, w} }

func (s Sort) SMT() string {
	switch s.K {
	case KBool:
		return "Bool"
	case KBV:
		return fmt.Sprintf("(_ BitVec %d)", s.W)
	case KFP:
		if s.W == 32 {
			return "(_ FloatingPoint 8 24)"
		}
		return "(_ FloatingPoint 11 53)"
	}
	panic("sort")
}

type Op uint8

const (
	OConst Op = iota
	OVar
	ONot
	OAnd
	OOr
	OIte
	OEq
	OAdd
	OSub
	OMul
	OUDiv
	OSDiv
	OURem
	OSRem
	OBAnd
	OBOr
	OBXor
	OShl
	OLShr
	OAShr
	OBNot
	ONeg
	OUlt
	OUle
	OSlt
	OSle
	OExtract // I=hi, J=lo
	OZext    // to W
	OSext
	OConcat
	// FP
	OFPOfSBV  // int -> fp (RNE)
	OFPOfUBV  // uint -> fp
	OFPToSBV  // fp -> signed bv (RTZ), unspecified when out of range
	OFPToUBV  //
	OFPToFP   // fp -> fp other width
	OFPLt
	OFPLe
	OFPEq
	OFPIsNaN
	OFPAdd
	OFPSub
	OFPMul
	OFPDiv
	OFPNeg
	OFPOfBits // reinterpret bv as fp
)

type Term struct {
	Op   Op
	S    Sort
	Args []*Term
	U    uint64 // const value (bool: 0/1; bv: value masked; fp: ieee bits)
	Name string // var name
	I, J int
}

func (t *Term) IsConst() bool { return t.Op == OConst }

func mask(w int) uint64 {
	if w >= 64 {
		return ^uint64(0)
	}
	return (uint64(1) << uint(w)) - 1
}

var (
	TTrue  = &Term{Op: OConst, S: SBool, U: 1}
	TFalse = &Term{Op: OConst, S: SBool, U: 0}
)

func MkBool(b bool) *Term {
	if b {
		return TTrue
	}
	return TFalse
}

func MkBV(w int, v uint64) *Term { return &Term{Op: OConst, S: BV(w), U: v & mask(w)} }

func MkFP(w int, bitsv uint64) *Term { return &Term{Op: OConst, S: Sort{KFP, w}, U: bitsv} }

func MkFloat64(f float64) *Term { return MkFP(64, math.Float64bits(f)) }
func MkFloat32(f float32) *Term { return MkFP(32, uint64(math.Float32bits(f))) }

func MkVar(name string, s Sort) *Term { return &Term{Op: OVar, S: s, Name: name} }

func (t *Term) IsTrue() bool  { return t.Op == OConst && t.S.K == KBool && t.U == 1 }
func (t *Term) IsFalse() bool { return t.Op == OConst && t.S.K == KBool && t.U == 0 }

// signed value of const
func (t *Term) Int64() int64 {
	w := t.S.W
	if w == 64 {
		return int64(t.U)
	}
	v := t.U
	if v&(1<<uint(w-1)) != 0 {
		v |= ^mask(w)
	}
	return int64(v)
}

func (t *Term) Float64() float64 {
	if t.S.W == 32 {
		return float64(math.Float32frombits(uint32(t.U)))
	}
	return math.Float64frombits(t.U)
}

// structural equality (bounded depth by term size; pointer shortcut)
func TermEq(a, b *Term) bool {
	if a == b {
		return true
	}
	if a.Op != b.Op || a.S != b.S || a.U != b.U || a.Name != b.Name || a.I != b.I || a.J != b.J || len(a.Args) != len(b.Args) {
		return false
	}
	for i := range a.Args {
		if !TermEq(a.Args[i], b.Args[i]) {
			return false
		}
	}
	return true
}

func Not(a *Term) *Term {
	if a.IsConst() {
		return MkBool(a.U == 0)
	}
	if a.Op == ONot {
		return a.Args[0]
	}
	return &Term{Op: ONot, S: SBool, Args: []*Term{a}}
}

func And(xs ...*Term) *Term {
	var out []*Term
	for _, x := range xs {
		if x.IsFalse() {
			return TFalse
		}
		if x.IsTrue() {
			continue
		}
		if x.Op == OAnd {
			out = append(out, x.Args...)
			continue
		}
		out = append(out, x)
	}
	if len(out) == 0 {
		return TTrue
	}
	if len(out) == 1 {
		return out[0]
	}
	return &Term{Op: OAnd, S: SBool, Args: out}
}

func Or(xs ...*Term) *Term {
	var out []*Term
	for _, x := range xs {
		if x.IsTrue() {
			return TTrue
		}
		if x.IsFalse() {
			continue
		}
		if x.Op == OOr {
			out = append(out, x.Args...)
			continue
		}
		out = append(out, x)
	}
	if len(out) == 0 {
		return TFalse
	}
	if len(out) == 1 {
		return out[0]
	}
	return &Term{Op: OOr, S: SBool, Args: out}
}

func Implies(a, b *Term) *Term { return Or(Not(a), b) }

func Ite(c, a, b *Term) *Term {
	if c.IsTrue() {
		return a
	}
	if c.IsFalse() {
		return b
	}
	if a == b || (a.IsConst() && b.IsConst() && a.U == b.U) {
		return a
	}
	if a.S != b.S {
		panic(fmt.Sprintf("ite sort mismatch %v %v", a.S, b.S))
	}
	if a.S.K == KBool {
		if a.IsTrue() && b.IsFalse() {
			return c
		}
		if a.IsFalse() && b.IsTrue() {
			return Not(c)
		}
	}
	return &Term{Op: OIte, S: a.S, Args: []*Term{c, a, b}}
}

func Eq(a, b *Term) *Term {
	if a.S != b.S {
		panic(fmt.Sprintf("eq sort mismatch %v %v", a.S, b.S))
	}
	if a == b {
		if a.S.K != KFP {
			return TTrue
		}
	}
	if a.IsConst() && b.IsConst() {
		if a.S.K == KFP {
			return MkBool(a.Float64() == b.Float64())
		}
		return MkBool(a.U == b.U)
	}
	if a.S.K == KFP {
		return &Term{Op: OFPEq, S: SBool, Args: []*Term{a, b}}
	}
	if a.S.K == KBool {
		if a.IsConst() {
			a, b = b, a
		}
		if b.IsTrue() {
			return a
		}
		if b.IsFalse() {
			return Not(a)
		}
	}
	if a.S.K != KFP && TermEq(a, b) {
		return TTrue
	}
	// ite(c, k1, k2) == k  with consts
	if b.IsConst() && a.Op == OIte && a.Args[1].IsConst() && a.Args[2].IsConst() {
		return Ite(a.Args[0], MkBool(a.Args[1].U == b.U), MkBool(a.Args[2].U == b.U))
	}
	return &Term{Op: OEq, S: SBool, Args: []*Term{a, b}}
}

func sx(v uint64, w int) int64 {
	if w < 64 && v&(1<<uint(w-1)) != 0 {
		v |= ^mask(w)
	}
	return int64(v)
}

func bin(op Op, a, b *Term) *Term {
	if a.S != b.S {
		panic(fmt.Sprintf("binop %d sort mismatch %v %v", op, a.S, b.S))
	}
	w := a.S.W
	if a.IsConst() && b.IsConst() {
		x, y := a.U, b.U
		var r uint64
		switch op {
		case OAdd:
			r = x + y
		case OSub:
			r = x - y
		case OMul:
			r = x * y
		case OUDiv:
			if y == 0 {
				r = mask(w)
			} else {
				r = x / y
			}
		case OURem:
			if y == 0 {
				r = x
			} else {
				r = x % y
			}
		case OSDiv:
			sxv, syv := sx(x, w), sx(y, w)
			if syv == 0 {
				if sxv >= 0 {
					r = mask(w)
				} else {
					r = 1
				}
			} else if syv == -1 {
				r = uint64(-sxv)
			} else {
				r = uint64(sxv / syv)
			}
		case OSRem:
			sxv, syv := sx(x, w), sx(y, w)
			if syv == 0 {
				r = x
			} else if syv == -1 {
				r = 0
			} else {
				r = uint64(sxv % syv)
			}
		case OBAnd:
			r = x & y
		case OBOr:
			r = x | y
		case OBXor:
			r = x ^ y
		case OShl:
			if y >= uint64(w) {
				r = 0
			} else {
				r = x << y
			}
		case OLShr:
			if y >= uint64(w) {
				r = 0
			} else {
				r = x >> y
			}
		case OAShr:
			s := sx(x, w)
			if y >= uint64(w) {
				if s < 0 {
					r = mask(w)
				} else {
					r = 0
				}
			} else {
				r = uint64(s >> y)
			}
		default:
			panic("bin op")
		}
		return MkBV(w, r)
	}
	// identities
	switch op {
	case OAdd, OBOr, OBXor:
		if a.IsConst() && a.U == 0 {
			return b
		}
		if b.IsConst() && b.U == 0 {
			return a
		}
	case OSub, OShl, OLShr, OAShr:
		if b.IsConst() && b.U == 0 {
			return a
		}
	case OMul:
		if a.IsConst() && a.U == 1 {
			return b
		}
		if b.IsConst() && b.U == 1 {
			return a
		}
		if (a.IsConst() && a.U == 0) || (b.IsConst() && b.U == 0) {
			return MkBV(w, 0)
		}
	case OBAnd:
		if (a.IsConst() && a.U == 0) || (b.IsConst() && b.U == 0) {
			return MkBV(w, 0)
		}
		if a.IsConst() && a.U == mask(w) {
			return b
		}
		if b.IsConst() && b.U == mask(w) {
			return a
		}
	}
	return &Term{Op: op, S: a.S, Args: []*Term{a, b}}
}

func Add(a, b *Term) *Term  { return bin(OAdd, a, b) }
func Sub(a, b *Term) *Term  { return bin(OSub, a, b) }
func Mul(a, b *Term) *Term  { return bin(OMul, a, b) }
func UDiv(a, b *Term) *Term { return bin(OUDiv, a, b) }
func SDiv(a, b *Term) *Term { return bin(OSDiv, a, b) }
func URem(a, b *Term) *Term { return bin(OURem, a, b) }
func SRem(a, b *Term) *Term { return bin(OSRem, a, b) }
func BAnd(a, b *Term) *Term { return bin(OBAnd, a, b) }
func BOr(a, b *Term) *Term  { return bin(OBOr, a, b) }
func BXor(a, b *Term) *Term { return bin(OBXor, a, b) }
func Shl(a, b *Term) *Term  { return bin(OShl, a, b) }
func LShr(a, b *Term) *Term { return bin(OLShr, a, b) }
func AShr(a, b *Term) *Term { return bin(OAShr, a, b) }

func BNot(a *Term) *Term {
	if a.IsConst() {
		return MkBV(a.S.W, ^a.U)
	}
	return &Term{Op: OBNot, S: a.S, Args: []*Term{a}}
}

func Neg(a *Term) *Term {
	if a.IsConst() {
		return MkBV(a.S.W, -a.U)
	}
	return &Term{Op: ONeg, S: a.S, Args: []*Term{a}}
}

func cmp(op Op, a, b *Term) *Term {
	if a.S != b.S {
		panic(fmt.Sprintf("cmp sort mismatch %v %v", a.S, b.S))
	}
	w := a.S.W
	if a.IsConst() && b.IsConst() {
		switch op {
		case OUlt:
			return MkBool(a.U < b.U)
		case OUle:
			return MkBool(a.U <= b.U)
		case OSlt:
			return MkBool(sx(a.U, w) < sx(b.U, w))
		case OSle:
			return MkBool(sx(a.U, w) <= sx(b.U, w))
		}
	}
	if TermEq(a, b) {
		return MkBool(op == OUle || op == OSle)
	}
	if op == OUlt && b.IsConst() && b.U == 0 {
		return TFalse
	}
	if op == OUle && a.IsConst() && a.U == 0 {
		return TTrue
	}
	return &Term{Op: op, S: SBool, Args: []*Term{a, b}}
}

func Ult(a, b *Term) *Term { return cmp(OUlt, a, b) }
func Ule(a, b *Term) *Term { return cmp(OUle, a, b) }
func Slt(a, b *Term) *Term { return cmp(OSlt, a, b) }
func Sle(a, b *Term) *Term { return cmp(OSle, a, b) }

func Extract(a *Term, hi, lo int) *Term {
	if lo == 0 && hi == a.S.W-1 {
		return a
	}
	w := hi - lo + 1
	if a.IsConst() {
		return MkBV(w, a.U>>uint(lo))
	}
	if a.Op == OZext || a.Op == OSext {
		inner := a.Args[0]
		if hi < inner.S.W {
			return Extract(inner, hi, lo)
		}
	}
	return &Term{Op: OExtract, S: BV(w), Args: []*Term{a}, I: hi, J: lo}
}

func Zext(a *Term, w int) *Term {
	if a.S.W == w {
		return a
	}
	if a.S.W > w {
		return Extract(a, w-1, 0)
	}
	if a.IsConst() {
		return MkBV(w, a.U)
	}
	return &Term{Op: OZext, S: BV(w), Args: []*Term{a}}
}

func Sext(a *Term, w int) *Term {
	if a.S.W == w {
		return a
	}
	if a.S.W > w {
		return Extract(a, w-1, 0)
	}
	if a.IsConst() {
		return MkBV(w, uint64(sx(a.U, a.S.W)))
	}
	return &Term{Op: OSext, S: BV(w), Args: []*Term{a}}
}

func Concat(hi, lo *Term) *Term {
	w := hi.S.W + lo.S.W
	if hi.IsConst() && lo.IsConst() {
		return MkBV(w, hi.U<<uint(lo.S.W)|lo.U)
	}
	return &Term{Op: OConcat, S: BV(w), Args: []*Term{hi, lo}}
}

// ---- FP ----

func FPOfSBV(a *Term, fw int) *Term {
	if a.IsConst() {
		if fw == 32 {
			return MkFloat32(float32(a.Int64()))
		}
		return MkFloat64(float64(a.Int64()))
	}
	return &Term{Op: OFPOfSBV, S: Sort{KFP, fw}, Args: []*Term{a}}
}

func FPOfUBV(a *Term, fw int) *Term {
	if a.IsConst() {
		if fw == 32 {
			return MkFloat32(float32(a.U))
		}
		return MkFloat64(float64(a.U))
	}
	return &Term{Op: OFPOfUBV, S: Sort{KFP, fw}, Args: []*Term{a}}
}

func FPToFP(a *Term, fw int) *Term {
	if a.S.W == fw {
		return a
	}
	if a.IsConst() {
		if fw == 32 {
			return MkFloat32(float32(a.Float64()))
		}
		return MkFloat64(a.Float64())
	}
	return &Term{Op: OFPToFP, S: Sort{KFP, fw}, Args: []*Term{a}}
}

// FPToInt models Go/amd64 float -> signed 64-bit conversion (CVTTSD2SQ):
// truncation when representable, 0x8000000000000000 otherwise (incl. NaN).
// Narrower / unsigned targets are derived by truncation of the 64-bit result
// (stated approximation for unsigned targets above 2^63).
func FPToInt64(a *Term) *Term {
	if a.IsConst() {
		f := a.Float64()
		if f != f || f >= 9223372036854775808.0 || f < -9223372036854775808.0 {
			return MkBV(64, 0x8000000000000000)
		}
		return MkBV(64, uint64(int64(f)))
	}
	// exact round trip: integers of magnitude <= 2^53 survive int -> float64 -> int64
	if a.S.W == 64 && (a.Op == OFPOfUBV || a.Op == OFPOfSBV) && a.Args[0].S.W <= 64 {
		x := a.Args[0]
		var x64, small *Term
		if a.Op == OFPOfUBV {
			x64 = Zext(x, 64)
			small = Ule(x64, MkBV(64, 1<<53))
		} else {
			x64 = Sext(x, 64)
			small = And(Sle(MkBV(64, ^uint64(1<<53)+1), x64), Sle(x64, MkBV(64, 1<<53)))
		}
		if !small.IsFalse() {
			return Ite(small, x64, fpToInt64Raw(a))
		}
	}
	return fpToInt64Raw(a)
}

func fpToInt64Raw(a *Term) *Term {
	a64 := FPToFP(a, 64)
	lo := MkFloat64(-9223372036854775808.0)
	hi := MkFloat64(9223372036854775808.0)
	inr := And(&Term{Op: OFPLe, S: SBool, Args: []*Term{lo, a64}}, &Term{Op: OFPLt, S: SBool, Args: []*Term{a64, hi}})
	conv := &Term{Op: OFPToSBV, S: BV(64), Args: []*Term{a64}}
	return Ite(inr, conv, MkBV(64, 0x8000000000000000))
}

func fpcmp(op Op, a, b *Term) *Term {
	if a.IsConst() && b.IsConst() {
		x, y := a.Float64(), b.Float64()
		switch op {
		case OFPLt:
			return MkBool(x < y)
		case OFPLe:
			return MkBool(x <= y)
		case OFPEq:
			return MkBool(x == y)
		}
	}
	return &Term{Op: op, S: SBool, Args: []*Term{a, b}}
}

func fpbin(op Op, a, b *Term) *Term {
	if a.IsConst() && b.IsConst() {
		x, y := a.Float64(), b.Float64()
		var r float64
		switch op {
		case OFPAdd:
			r = x + y
		case OFPSub:
			r = x - y
		case OFPMul:
			r = x * y
		case OFPDiv:
			r = x / y
		}
		if a.S.W == 32 {
			return MkFloat32(float32(r))
		}
		return MkFloat64(r)
	}
	return &Term{Op: op, S: a.S, Args: []*Term{a, b}}
}

func FPNeg(a *Term) *Term {
	if a.IsConst() {
		if a.S.W == 32 {
			return MkFloat32(float32(-a.Float64()))
		}
		return MkFloat64(-a.Float64())
	}
	return &Term{Op: OFPNeg, S: a.S, Args: []*Term{a}}
}

func FPOfBits(a *Term) *Term {
	if a.IsConst() {
		return MkFP(a.S.W, a.U)
	}
	return &Term{Op: OFPOfBits, S: Sort{KFP, a.S.W}, Args: []*Term{a}}
}

// ---- printing ----

// Printer assigns names to compound terms so DAGs are printed linearly.
type Printer struct {
	names map[*Term]string
	decl  map[string]Sort
	out   *strings.Builder
	n     int
}

func NewPrinter(out *strings.Builder) *Printer {
	return &Printer{names: map[*Term]string{}, decl: map[string]Sort{}, out: out}
}

func bvLit(w int, v uint64) string {
	if w%4 == 0 {
		return fmt.Sprintf("#x%0*x", w/4, v)
	}
	return fmt.Sprintf("#b%0*b", w, v)
}

func fpLit(w int, b uint64) string {
	if w == 32 {
		return fmt.Sprintf("(fp #b%b #b%08b #b%023b)", (b>>31)&1, (b>>23)&0xff, b&0x7fffff)
	}
	return fmt.Sprintf("(fp #b%b #b%011b #b%052b)", (b>>63)&1, (b>>52)&0x7ff, b&0xfffffffffffff)
}

var opNames = map[Op]string{
	ONot: "not", OAnd: "and", OOr: "or", OIte: "ite", OEq: "=",
	OAdd: "bvadd", OSub: "bvsub", OMul: "bvmul", OUDiv: "bvudiv", OSDiv: "bvsdiv", OURem: "bvurem", OSRem: "bvsrem",
	OBAnd: "bvand", OBOr: "bvor", OBXor: "bvxor", OShl: "bvshl", OLShr: "bvlshr", OAShr: "bvashr", OBNot: "bvnot", ONeg: "bvneg",
	OUlt: "bvult", OUle: "bvule", OSlt: "bvslt", OSle: "bvsle", OConcat: "concat",
	OFPLt: "fp.lt", OFPLe: "fp.leq", OFPEq: "fp.eq", OFPIsNaN: "fp.isNaN", OFPNeg: "fp.neg",
}

// Ref returns a string usable as an SMT expression for t, emitting any needed
// declarations / definitions into p.out first.
func (p *Printer) Ref(t *Term) string {
	switch t.Op {
	case OConst:
		switch t.S.K {
		case KBool:
			if t.U == 1 {
				return "true"
			}
			return "false"
		case KBV:
			return bvLit(t.S.W, t.U)
		case KFP:
			return fpLit(t.S.W, t.U)
		}
	case OVar:
		if _, ok := p.decl[t.Name]; !ok {
			p.decl[t.Name] = t.S
			fmt.Fprintf(p.out, "(declare-const %s %s)\n", t.Name, t.S.SMT())
		}
		return t.Name
	}
	if n, ok := p.names[t]; ok {
		return n
	}
	args := make([]string, len(t.Args))
	for i, a := range t.Args {
		args[i] = p.Ref(a)
	}
	var body string
	switch t.Op {
	case OExtract:
		body = fmt.Sprintf("((_ extract %d %d) %s)", t.I, t.J, args[0])
	case OZext:
		body = fmt.Sprintf("((_ zero_extend %d) %s)", t.S.W-t.Args[0].S.W, args[0])
	case OSext:
		body = fmt.Sprintf("((_ sign_extend %d) %s)", t.S.W-t.Args[0].S.W, args[0])
	case OFPOfSBV:
		body = fmt.Sprintf("((_ to_fp %s) RNE %s)", fpew(t.S.W), args[0])
	case OFPOfUBV:
		body = fmt.Sprintf("((_ to_fp_unsigned %s) RNE %s)", fpew(t.S.W), args[0])
	case OFPToFP:
		body = fmt.Sprintf("((_ to_fp %s) RNE %s)", fpew(t.S.W), args[0])
	case OFPToSBV:
		body = fmt.Sprintf("((_ fp.to_sbv %d) RTZ %s)", t.S.W, args[0])
	case OFPToUBV:
		body = fmt.Sprintf("((_ fp.to_ubv %d) RTZ %s)", t.S.W, args[0])
	case OFPOfBits:
		body = fmt.Sprintf("((_ to_fp %s) %s)", fpew(t.S.W), args[0])
	case OFPAdd, OFPSub, OFPMul, OFPDiv:
		nm := map[Op]string{OFPAdd: "fp.add", OFPSub: "fp.sub", OFPMul: "fp.mul", OFPDiv: "fp.div"}[t.Op]
		body = fmt.Sprintf("(%s RNE %s %s)", nm, args[0], args[1])
	default:
		nm, ok := opNames[t.Op]
		if !ok {
			panic(fmt.Sprintf("print op %d", t.Op))
		}
		body = "(" + nm + " " + strings.Join(args, " ") + ")"
	}
	p.n++
	name := fmt.Sprintf("t!%d", p.n)
	fmt.Fprintf(p.out, "(define-fun %s () %s %s)\n", name, t.S.SMT(), body)
	p.names[t] = name
	return name
}

func fpew(w int) string {
	if w == 32 {
		return "8 24"
	}
	return "11 53"
}

// Eval evaluates t under a model (var name -> const bits). Missing vars are 0.
func Eval(t *Term, m map[string]uint64) *Term {
	switch t.Op {
	case OConst:
		return t
	case OVar:
		v := m[t.Name]
		switch t.S.K {
		case KBool:
			return MkBool(v != 0)
		case KBV:
			return MkBV(t.S.W, v)
		default:
			return MkFP(t.S.W, v)
		}
	}
	args := make([]*Term, len(t.Args))
	for i, a := range t.Args {
		args[i] = Eval(a, m)
	}
	switch t.Op {
	case ONot:
		return Not(args[0])
	case OAnd:
		return And(args...)
	case OOr:
		return Or(args...)
	case OIte:
		return Ite(args[0], args[1], args[2])
	case OEq:
		return Eq(args[0], args[1])
	case OAdd, OSub, OMul, OUDiv, OSDiv, OURem, OSRem, OBAnd, OBOr, OBXor, OShl, OLShr, OAShr:
		return bin(t.Op, args[0], args[1])
	case OBNot:
		return BNot(args[0])
	case ONeg:
		return Neg(args[0])
	case OUlt, OUle, OSlt, OSle:
		return cmp(t.Op, args[0], args[1])
	case OExtract:
		return Extract(args[0], t.I, t.J)
	case OZext:
		return Zext(args[0], t.S.W)
	case OSext:
		return Sext(args[0], t.S.W)
	case OConcat:
		return Concat(args[0], args[1])
	case OFPOfSBV:
		return FPOfSBV(args[0], t.S.W)
	case OFPOfUBV:
		return FPOfUBV(args[0], t.S.W)
	case OFPToFP:
		return FPToFP(args[0], t.S.W)
	case OFPToSBV:
		return MkBV(t.S.W, uint64(int64(args[0].Float64())))
	case OFPToUBV:
		return MkBV(t.S.W, uint64(args[0].Float64()))
	case OFPLt, OFPLe, OFPEq:
		return fpcmp(t.Op, args[0], args[1])
	case OFPIsNaN:
		f := args[0].Float64()
		return MkBool(f != f)
	case OFPAdd, OFPSub, OFPMul, OFPDiv:
		return fpbin(t.Op, args[0], args[1])
	case OFPNeg:
		return FPNeg(args[0])
	case OFPOfBits:
		return FPOfBits(args[0])
	}
	panic("eval op")
}

var _ = bits.Len
