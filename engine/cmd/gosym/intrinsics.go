package main

// Models of library functions at the runtime boundary. Everything listed here
// is part of the trusted base and is echoed into the evidence file.

import (
	"fmt"
	"go/types"
	"strings"
	"sync"

	"golang.org/x/tools/go/ssa"
)

type intrinsicFn func(x *Exec, g *G, fn *ssa.Function, args []Value) (Value, bool)

var intrinsics = map[string]intrinsicFn{}
var intrinsicPrefix = map[string]intrinsicFn{}
var intrinsicCache sync.Map
var intrinsicsUsed sync.Map

func fnKey(fn *ssa.Function) string {
	if o := fn.Origin(); o != nil {
		return o.String()
	}
	return fn.String()
}

func lookupIntrinsic(fn *ssa.Function) intrinsicFn {
	if v, ok := intrinsicCache.Load(fn); ok {
		if v == nil {
			return nil
		}
		return v.(intrinsicFn)
	}
	k := fnKey(fn)
	var f intrinsicFn
	if in, ok := intrinsics[k]; ok {
		f = in
	} else {
		for p, in := range intrinsicPrefix {
			if strings.HasPrefix(k, p) {
				f = in
				break
			}
		}
	}
	if f != nil {
		inner := f
		f = func(x *Exec, g *G, fn *ssa.Function, args []Value) (Value, bool) {
			intrinsicsUsed.Store(k, true)
			return inner(x, g, fn, args)
		}
		intrinsicCache.Store(fn, f)
	} else {
		intrinsicCache.Store(fn, nil)
	}
	return f
}

func reg(name string, f func(x *Exec, g *G, args []Value) Value) {
	intrinsics[name] = func(x *Exec, g *G, fn *ssa.Function, args []Value) (Value, bool) {
		return f(x, g, args), true
	}
}

func noop(names ...string) {
	for _, n := range names {
		reg(n, func(x *Exec, g *G, args []Value) Value { return nil })
	}
}

func (x *Exec) concStr(v Value, what string) (string, bool) {
	s := v.(*Str)
	if !s.IsConc() {
		return "", false
	}
	return s.S, true
}

func (x *Exec) mkError(msg *Str) Value {
	obj := new(Value)
	*obj = StructV{msg}
	return Iface{T: errStringPtrType(x.P), V: obj}
}

func boolTerm(v Value) *Term { return v.(*Term) }

func strSliceVal(parts []*Str) Value {
	a := make([]Value, len(parts))
	for i, p := range parts {
		a[i] = p
	}
	return SliceV{A: a}
}

func init() {
	// ---- package initialisers of foreign packages are skipped ----
	intrinsicPrefix["__never__"] = nil
	delete(intrinsicPrefix, "__never__")

	// ---- strings ----
	// maps.clone is linked to the runtime: shallow copy of the map inside the interface
	reg("maps.clone", func(x *Exec, g *G, a []Value) Value {
		iv, ok := a[0].(Iface)
		if !ok {
			x.unsupported("maps.clone of non-interface")
			return a[0]
		}
		m, _ := iv.V.(*MapV)
		if m == nil {
			return iv
		}
		c := &MapV{KT: m.KT, VT: m.VT}
		for _, e := range m.Entries {
			if !e.Deleted {
				c.Entries = append(c.Entries, &mapEntry{K: copyVal(e.K), V: copyVal(e.V)})
			}
		}
		return Iface{T: iv.T, V: c}
	})
	reg("strings.HasPrefix", func(x *Exec, g *G, a []Value) Value {
		s, p := a[0].(*Str), a[1].(*Str)
		if s.Opaque || p.Opaque {
			x.unsupported("HasPrefix on opaque string")
		}
		if p.Len() > s.Len() {
			return TFalse
		}
		return StrEq(StrSlice(s, 0, p.Len()), p)
	})
	reg("strings.HasSuffix", func(x *Exec, g *G, a []Value) Value {
		s, p := a[0].(*Str), a[1].(*Str)
		if s.Opaque || p.Opaque {
			x.unsupported("HasSuffix on opaque string")
		}
		if p.Len() > s.Len() {
			return TFalse
		}
		return StrEq(StrSlice(s, s.Len()-p.Len(), s.Len()), p)
	})
	reg("strings.Split", func(x *Exec, g *G, a []Value) Value {
		s, sep := a[0].(*Str), a[1].(*Str)
		if s.Opaque || !sep.IsConc() || len(sep.S) != 1 {
			if s.IsConc() && sep.IsConc() {
				ps := strings.Split(s.S, sep.S)
				out := make([]*Str, len(ps))
				for i, p := range ps {
					out[i] = MkStr(p)
				}
				return strSliceVal(out)
			}
			x.unsupported("strings.Split with symbolic/multibyte separator")
		}
		sb := MkBV(8, uint64(sep.S[0]))
		var parts []*Str
		start := 0
		for i := 0; i < s.Len(); i++ {
			c := Eq(s.Byte(i), sb)
			is := false
			if c.IsConst() {
				is = c.IsTrue()
			} else {
				is = x.choose([]*Term{c, Not(c)}, "split") == 0
			}
			if is {
				parts = append(parts, StrSlice(s, start, i))
				start = i + 1
			}
		}
		parts = append(parts, StrSlice(s, start, s.Len()))
		return strSliceVal(parts)
	})
	// ---- internal/bytealg: the assembly kernels under strings/bytes; with these
	// modelled, strings.Cut/Index/IndexByte/Contains/Count run from their real SSA ----
	firstIndex := func(x *Exec, match []*Term, tag string) Value {
		// least i with match[i], or -1: one fork per feasible position
		conds := make([]*Term, 0, len(match)+1)
		none := []*Term{}
		for i := range match {
			conds = append(conds, And(append(append([]*Term{}, none...), match[i])...))
			none = append(none, Not(match[i]))
		}
		conds = append(conds, And(none...))
		k := x.choose(conds, tag)
		if k == len(match) {
			return MkBV(64, ^uint64(0))
		}
		return MkBV(64, uint64(k))
	}
	byteMatches := func(bs []*Term, c *Term) []*Term {
		m := make([]*Term, len(bs))
		for i, b := range bs {
			m[i] = Eq(b, c)
		}
		return m
	}
	reg("internal/bytealg.IndexByteString", func(x *Exec, g *G, a []Value) Value {
		s := a[0].(*Str)
		if s.Opaque {
			x.unsupported("IndexByteString on opaque string")
		}
		return firstIndex(x, byteMatches(s.Bytes(), a[1].(*Term)), "indexbyte")
	})
	reg("internal/bytealg.IndexByte", func(x *Exec, g *G, a []Value) Value {
		return firstIndex(x, byteMatches(termBytes(a[0]), a[1].(*Term)), "indexbyte")
	})
	subMatches := func(hay, needle []*Term) []*Term {
		var m []*Term
		for i := 0; i+len(needle) <= len(hay); i++ {
			m = append(m, bytesEq(hay[i:i+len(needle)], needle))
		}
		return m
	}
	reg("internal/bytealg.IndexString", func(x *Exec, g *G, a []Value) Value {
		s, sub := a[0].(*Str), a[1].(*Str)
		if s.Opaque || sub.Opaque {
			x.unsupported("IndexString on opaque string")
		}
		return firstIndex(x, subMatches(s.Bytes(), sub.Bytes()), "indexstring")
	})
	reg("internal/bytealg.Index", func(x *Exec, g *G, a []Value) Value {
		return firstIndex(x, subMatches(termBytes(a[0]), termBytes(a[1])), "index")
	})
	countMatches := func(x *Exec, m []*Term) Value {
		n := 0
		for _, c := range m {
			is := false
			if c.IsConst() {
				is = c.IsTrue()
			} else {
				is = x.choose([]*Term{c, Not(c)}, "count") == 0
			}
			if is {
				n++
			}
		}
		return MkBV(64, uint64(n))
	}
	reg("internal/bytealg.CountString", func(x *Exec, g *G, a []Value) Value {
		s := a[0].(*Str)
		if s.Opaque {
			x.unsupported("CountString on opaque string")
		}
		return countMatches(x, byteMatches(s.Bytes(), a[1].(*Term)))
	})
	reg("internal/bytealg.Count", func(x *Exec, g *G, a []Value) Value {
		return countMatches(x, byteMatches(termBytes(a[0]), a[1].(*Term)))
	})
	reg("internal/bytealg.Equal", func(x *Exec, g *G, a []Value) Value {
		return bytesEq(termBytes(a[0]), termBytes(a[1]))
	})
	reg("strings.Join", func(x *Exec, g *G, a []Value) Value {
		sl := a[0].(SliceV)
		sep := a[1].(*Str)
		res := MkStr("")
		for i, e := range sl.A {
			if i > 0 {
				res = StrConcat(res, sep)
			}
			res = StrConcat(res, e.(*Str))
		}
		return res
	})
	concStr2 := func(name string, f func(a, b string) Value) {
		reg(name, func(x *Exec, g *G, a []Value) Value {
			s1, ok1 := x.concStr(a[0], name)
			s2, ok2 := x.concStr(a[1], name)
			if !ok1 || !ok2 {
				x.unsupported("%s on symbolic string", name)
			}
			return f(s1, s2)
		})
	}
	concStr2("strings.Contains", func(a, b string) Value { return MkBool(strings.Contains(a, b)) })
	concStr2("strings.Index", func(a, b string) Value { return MkBV(64, uint64(int64(strings.Index(a, b)))) })
	concStr2("strings.LastIndex", func(a, b string) Value { return MkBV(64, uint64(int64(strings.LastIndex(a, b)))) })
	concStr2("strings.EqualFold", func(a, b string) Value { return MkBool(strings.EqualFold(a, b)) })
	concStr2("strings.TrimPrefix", func(a, b string) Value { return MkStr(strings.TrimPrefix(a, b)) })
	concStr2("strings.TrimSuffix", func(a, b string) Value { return MkStr(strings.TrimSuffix(a, b)) })
	concStr2("strings.Compare", func(a, b string) Value { return MkBV(64, uint64(int64(strings.Compare(a, b)))) })
	concStr1 := func(name string, f func(a string) Value) {
		reg(name, func(x *Exec, g *G, a []Value) Value {
			s1, ok1 := x.concStr(a[0], name)
			if !ok1 {
				x.unsupported("%s on symbolic string", name)
			}
			return f(s1)
		})
	}
	concStr1("strings.ToLower", func(a string) Value { return MkStr(strings.ToLower(a)) })
	concStr1("strings.ToUpper", func(a string) Value { return MkStr(strings.ToUpper(a)) })
	concStr1("strings.TrimSpace", func(a string) Value { return MkStr(strings.TrimSpace(a)) })

	// ---- fmt ----
	sprintf := func(x *Exec, format string, args []Value) *Str {
		if r := x.symSprintf(format, args); r != nil {
			return r
		}
		nat := make([]interface{}, len(args))
		for i, a := range args {
			n, ok := x.toNative(a)
			if !ok {
				return &Str{Opaque: true}
			}
			nat[i] = n
		}
		return MkStr(fmt.Sprintf(format, nat...))
	}
	reg("fmt.Sprintf", func(x *Exec, g *G, a []Value) Value {
		f, ok := x.concStr(a[0], "format")
		if !ok {
			return &Str{Opaque: true}
		}
		return sprintf(x, f, a[1].(SliceV).A)
	})
	reg("fmt.Errorf", func(x *Exec, g *G, a []Value) Value {
		f, ok := x.concStr(a[0], "format")
		if !ok {
			return x.mkError(&Str{Opaque: true})
		}
		f = strings.ReplaceAll(f, "%w", "%v")
		return x.mkError(sprintf(x, f, a[1].(SliceV).A))
	})
	reg("fmt.Sprint", func(x *Exec, g *G, a []Value) Value {
		args := a[0].(SliceV).A
		nat := make([]interface{}, len(args))
		for i, v := range args {
			n, ok := x.toNative(v)
			if !ok {
				return &Str{Opaque: true}
			}
			nat[i] = n
		}
		return MkStr(fmt.Sprint(nat...))
	})
	reg("fmt.Sprintln", func(x *Exec, g *G, a []Value) Value {
		args := a[0].(SliceV).A
		nat := make([]interface{}, len(args))
		for i, v := range args {
			n, ok := x.toNative(v)
			if !ok {
				return &Str{Opaque: true}
			}
			nat[i] = n
		}
		return MkStr(fmt.Sprintln(nat...))
	})
	reg("fmt.Println", func(x *Exec, g *G, a []Value) Value { return TupleV{MkBV(64, 0), Iface{}} })
	reg("fmt.Printf", func(x *Exec, g *G, a []Value) Value { return TupleV{MkBV(64, 0), Iface{}} })
	reg("fmt.Print", func(x *Exec, g *G, a []Value) Value { return TupleV{MkBV(64, 0), Iface{}} })
	reg("fmt.Fprintf", func(x *Exec, g *G, a []Value) Value { return TupleV{MkBV(64, 0), Iface{}} })
	reg("fmt.Fprintln", func(x *Exec, g *G, a []Value) Value { return TupleV{MkBV(64, 0), Iface{}} })
	noop("log.Println", "log.Printf", "log.Print", "(*log.Logger).Println", "(*log.Logger).Printf", "(*log.Logger).Print", "(*log.Logger).Output")

	// ---- strconv ----
	reg("strconv.Itoa", func(x *Exec, g *G, a []Value) Value {
		t := a[0].(*Term)
		if !t.IsConst() {
			return &Str{Opaque: true}
		}
		return MkStr(fmt.Sprint(t.Int64()))
	})
	reg("strconv.FormatUint", func(x *Exec, g *G, a []Value) Value {
		t := a[0].(*Term)
		b := a[1].(*Term)
		if !t.IsConst() || !b.IsConst() || b.U != 10 {
			return &Str{Opaque: true}
		}
		return MkStr(fmt.Sprint(t.U))
	})
	reg("strconv.FormatInt", func(x *Exec, g *G, a []Value) Value {
		t := a[0].(*Term)
		b := a[1].(*Term)
		if !t.IsConst() || !b.IsConst() || b.U != 10 {
			return &Str{Opaque: true}
		}
		return MkStr(fmt.Sprint(t.Int64()))
	})

	// ---- errors ----
	reg("errors.Is", func(x *Exec, g *G, a []Value) Value {
		e, t := a[0].(Iface), a[1].(Iface)
		if e.T == nil || t.T == nil {
			return MkBool(e.T == nil && t.T == nil)
		}
		if !types.Identical(e.T, t.T) {
			return TFalse
		}
		return x.equals(e.T, e.V, t.V)
	})

	// ---- sync ----
	lockOn := func(slot *Value, g *G, x *Exec, desc string) Value {
		t := (*slot).(*Term)
		if t.IsConst() && t.U == 0 {
			*slot = MkBV(t.S.W, 1)
			return nil
		}
		g.wcond = func() bool { v := (*slot).(*Term); return v.U == 0 }
		x.block(g, wCond, desc)
		return nil
	}
	mutexState := func(p Value) *Value {
		pv := p.(*Value)
		sv := (*pv).(StructV)
		// sync.Mutex{ _ noCopy?; mu isync.Mutex{state int32, sema uint32} } or {state, sema}
		for {
			if len(sv) == 0 {
				panic("mutex layout")
			}
			if _, ok := sv[0].(*Term); ok {
				return &sv[0]
			}
			// descend into first struct field that is non-empty
			found := false
			for i := range sv {
				if inner, ok := sv[i].(StructV); ok && len(inner) > 0 {
					sv = inner
					found = true
					break
				}
			}
			if !found {
				panic("mutex layout")
			}
		}
	}
	reg("(*sync.Mutex).Lock", func(x *Exec, g *G, a []Value) Value {
		if a[0].(*Value) == nil {
			x.runtimePanic("nil mutex")
			return nil
		}
		return lockOn(mutexState(a[0]), g, x, "mutex lock")
	})
	reg("(*sync.Mutex).Unlock", func(x *Exec, g *G, a []Value) Value {
		s := mutexState(a[0])
		if (*s).(*Term).U == 0 {
			x.goPanic(g, Iface{T: runtimeErrT, V: MkStr("sync: unlock of unlocked mutex")}, "fatal error: sync: unlock of unlocked mutex", true)
			return nil
		}
		*s = MkBV((*s).(*Term).S.W, 0)
		x.stallPoint(g)
		return nil
	})
	reg("(*sync.Mutex).TryLock", func(x *Exec, g *G, a []Value) Value {
		s := mutexState(a[0])
		if (*s).(*Term).U == 0 {
			*s = MkBV((*s).(*Term).S.W, 1)
			return TTrue
		}
		return TFalse
	})
	// RWMutex: writer flag in first int field (w.state), reader count in readerCount
	rwSlots := func(p Value) (w *Value, r *Value) {
		pv := p.(*Value)
		sv := (*pv).(StructV)
		// RWMutex{w Mutex; writerSem; readerSem; readerCount atomic.Int32; readerWait atomic.Int32}
		wp := new(Value)
		*wp = sv[0]
		_ = wp
		var find func(v Value) *Value
		find = func(v Value) *Value { return nil }
		_ = find
		// use writerSem (uint32) as writer flag and readerSem (uint32) as reader count: plain slots
		return &sv[1], &sv[2]
	}
	reg("(*sync.RWMutex).Lock", func(x *Exec, g *G, a []Value) Value {
		w, r := rwSlots(a[0])
		if (*w).(*Term).U == 0 && (*r).(*Term).U == 0 {
			*w = MkBV(32, 1)
			return nil
		}
		g.wcond = func() bool { return (*w).(*Term).U == 0 && (*r).(*Term).U == 0 }
		x.block(g, wCond, "rwmutex lock")
		return nil
	})
	reg("(*sync.RWMutex).Unlock", func(x *Exec, g *G, a []Value) Value {
		w, _ := rwSlots(a[0])
		*w = MkBV(32, 0)
		x.stallPoint(g)
		return nil
	})
	reg("(*sync.RWMutex).RLock", func(x *Exec, g *G, a []Value) Value {
		w, r := rwSlots(a[0])
		if (*w).(*Term).U == 0 {
			*r = MkBV(32, (*r).(*Term).U+1)
			return nil
		}
		g.wcond = func() bool { return (*w).(*Term).U == 0 }
		x.block(g, wCond, "rwmutex rlock")
		return nil
	})
	reg("(*sync.RWMutex).RUnlock", func(x *Exec, g *G, a []Value) Value {
		_, r := rwSlots(a[0])
		*r = MkBV(32, (*r).(*Term).U-1)
		return nil
	})
	// WaitGroup: use a side table keyed by pointer
	reg("(*sync.WaitGroup).Add", func(x *Exec, g *G, a []Value) Value {
		n := x.wgCounter(a[0].(*Value))
		*n += int(a[1].(*Term).Int64())
		if *n < 0 {
			x.goPanic(g, Iface{T: runtimeErrT, V: MkStr("sync: negative WaitGroup counter")}, "sync: negative WaitGroup counter", true)
		}
		return nil
	})
	reg("(*sync.WaitGroup).Done", func(x *Exec, g *G, a []Value) Value {
		n := x.wgCounter(a[0].(*Value))
		*n--
		if *n < 0 {
			x.goPanic(g, Iface{T: runtimeErrT, V: MkStr("sync: negative WaitGroup counter")}, "sync: negative WaitGroup counter", true)
		}
		return nil
	})
	reg("(*sync.WaitGroup).Wait", func(x *Exec, g *G, a []Value) Value {
		n := x.wgCounter(a[0].(*Value))
		if *n == 0 {
			return nil
		}
		g.wcond = func() bool { return *n == 0 }
		x.block(g, wCond, "waitgroup wait")
		return nil
	})
	// sync.Pool: no pooling; Get returns New() (or nil), Put drops
	// sync.Map: an ordinary map from interface keys to interface values (its
	// operations are atomic; the engine runs one goroutine at a time)
	anyT := types.Universe.Lookup("any").Type()
	syncMapOf := func(x *Exec, v Value) *MapV {
		p, _ := v.(*Value)
		if p == nil {
			x.runtimePanic("nil *sync.Map")
			return &MapV{KT: anyT, VT: anyT}
		}
		if x.syncMaps == nil {
			x.syncMaps = map[*Value]*MapV{}
		}
		m := x.syncMaps[p]
		if m == nil {
			m = &MapV{KT: anyT, VT: anyT}
			x.syncMaps[p] = m
		}
		return m
	}
	reg("(*sync.Map).Load", func(x *Exec, g *G, a []Value) Value {
		if e := x.mapFind(syncMapOf(x, a[0]), a[1]); e != nil {
			return TupleV{copyVal(e.V), TTrue}
		}
		return TupleV{Iface{}, TFalse}
	})
	reg("(*sync.Map).Store", func(x *Exec, g *G, a []Value) Value {
		x.mapSet(syncMapOf(x, a[0]), a[1], a[2])
		return nil
	})
	reg("(*sync.Map).LoadOrStore", func(x *Exec, g *G, a []Value) Value {
		m := syncMapOf(x, a[0])
		if e := x.mapFind(m, a[1]); e != nil {
			return TupleV{copyVal(e.V), TTrue}
		}
		if x.raised {
			return TupleV{Iface{}, TFalse}
		}
		m.Entries = append(m.Entries, &mapEntry{K: copyVal(a[1]), V: copyVal(a[2])})
		return TupleV{a[2], TFalse}
	})
	reg("(*sync.Map).LoadAndDelete", func(x *Exec, g *G, a []Value) Value {
		if e := x.mapFind(syncMapOf(x, a[0]), a[1]); e != nil {
			e.Deleted = true
			return TupleV{copyVal(e.V), TTrue}
		}
		return TupleV{Iface{}, TFalse}
	})
	reg("(*sync.Map).Delete", func(x *Exec, g *G, a []Value) Value {
		x.mapDelete(syncMapOf(x, a[0]), a[1])
		return nil
	})
	reg("(*sync.Map).Swap", func(x *Exec, g *G, a []Value) Value {
		m := syncMapOf(x, a[0])
		if e := x.mapFind(m, a[1]); e != nil {
			old := e.V
			e.V = copyVal(a[2])
			return TupleV{old, TTrue}
		}
		if !x.raised {
			m.Entries = append(m.Entries, &mapEntry{K: copyVal(a[1]), V: copyVal(a[2])})
		}
		return TupleV{Iface{}, TFalse}
	})
	reg("(*sync.Map).Clear", func(x *Exec, g *G, a []Value) Value {
		syncMapOf(x, a[0]).Entries = nil
		return nil
	})
	reg("(*sync.Pool).Get", func(x *Exec, g *G, a []Value) Value {
		sv := (*a[0].(*Value)).(StructV)
		nw, _ := sv[len(sv)-1].(*Closure)
		if nw == nil {
			return Iface{}
		}
		return tailCall{fn: nw}
	})
	noop("(*sync.Pool).Put")

	// ---- sync/atomic (function forms; typed methods run their real bodies) ----
	for _, w := range []struct {
		n string
		w int
	}{{"Int32", 32}, {"Int64", 64}, {"Uint32", 32}, {"Uint64", 64}, {"Uintptr", 64}} {
		w := w
		reg("sync/atomic.Load"+w.n, func(x *Exec, g *G, a []Value) Value { return *(a[0].(*Value)) })
		reg("sync/atomic.Store"+w.n, func(x *Exec, g *G, a []Value) Value { *(a[0].(*Value)) = a[1]; return nil })
		reg("sync/atomic.Add"+w.n, func(x *Exec, g *G, a []Value) Value {
			p := a[0].(*Value)
			*p = Add((*p).(*Term), a[1].(*Term))
			return *p
		})
		reg("sync/atomic.Swap"+w.n, func(x *Exec, g *G, a []Value) Value {
			p := a[0].(*Value)
			old := *p
			*p = a[1]
			return old
		})
		reg("sync/atomic.CompareAndSwap"+w.n, func(x *Exec, g *G, a []Value) Value {
			p := a[0].(*Value)
			c := Eq((*p).(*Term), a[1].(*Term))
			is := c.IsTrue()
			if !c.IsConst() {
				is = x.choose([]*Term{c, Not(c)}, "cas") == 0
			}
			if is {
				*p = a[2]
				return TTrue
			}
			return TFalse
		})
	}
	reg("(*sync/atomic.Value).Load", func(x *Exec, g *G, a []Value) Value {
		p := a[0].(*Value)
		sv := (*p).(StructV)
		if iv, ok := sv[0].(Iface); ok {
			return iv
		}
		return Iface{}
	})
	reg("(*sync/atomic.Value).Store", func(x *Exec, g *G, a []Value) Value {
		p := a[0].(*Value)
		sv := (*p).(StructV)
		sv[0] = a[1]
		return nil
	})

	// ---- math/rand, crypto/rand, wamp random ids ----
	reg("math/rand.NewSource", func(x *Exec, g *G, a []Value) Value { return Iface{T: nativeCtxType, V: &Native{Kind: "randsrc"}} })
	reg("math/rand.New", func(x *Exec, g *G, a []Value) Value { return &Native{Kind: "rand"} })
	reg("(*math/rand.Rand).Int63n", func(x *Exec, g *G, a []Value) Value {
		n := a[1].(*Term)
		v := x.inputEnv("rand.Int63n", "i64", SBV64)
		x.assume(And(Sle(MkBV(64, 0), v), Slt(v, n)))
		return v
	})
	reg("(*math/rand.Rand).Intn", func(x *Exec, g *G, a []Value) Value {
		n := a[1].(*Term)
		v := x.inputEnv("rand.Intn", "i64", SBV64)
		x.assume(And(Sle(MkBV(64, 0), v), Slt(v, n)))
		return v
	})
	reg("github.com/gammazero/nexus/v3/wamp.secureInt63n", func(x *Exec, g *G, a []Value) Value {
		n := a[0].(*Term)
		if x.concRandom {
			// harness asked for concrete, pairwise distinct "random" ids
			x.concRandN++
			return MkBV(64, 4000+x.concRandN*7)
		}
		v := x.inputEnv("secureInt63n", "i64", SBV64)
		x.assume(And(Sle(MkBV(64, 0), v), Slt(v, n)))
		if !x.allowIDCollide {
			// freshness assumption: a random id differs from the meta session
			// id (1) and from every random id drawn earlier on this path
			cs := []*Term{Not(Eq(v, MkBV(64, 0)))}
			for _, o := range x.randIDs {
				cs = append(cs, Not(Eq(v, o)))
			}
			x.assume(And(cs...))
			x.randIDs = append(x.randIDs, v)
		}
		return v
	})
	reg("github.com/gammazero/nexus/v3/wamp.NowISO8601", func(x *Exec, g *G, a []Value) Value {
		return MkStr("2020-01-01T00:00:00.000Z")
	})
	reg("crypto/rand.Read", func(x *Exec, g *G, a []Value) Value {
		s := a[0].(SliceV)
		cur := make([]*Term, len(s.A))
		for i := range s.A {
			cur[i] = x.inputEnv(fmt.Sprintf("crypto/rand[%d]", i), "u8", SBV8)
			s.A[i] = cur[i]
		}
		// freshness assumption: a read of >= 16 random bytes differs from every
		// earlier read of the same length
		if len(cur) >= 16 {
			for _, o := range x.randReads {
				if len(o) == len(cur) {
					x.assume(Not(bytesEq(cur, o)))
				}
			}
			x.randReads = append(x.randReads, cur)
		}
		return TupleV{MkBV(64, uint64(len(s.A))), Iface{}}
	})

	// ---- runtime ----
	reg("runtime.Gosched", func(x *Exec, g *G, a []Value) Value { x.cur = nil; return nil })
	noop("runtime.KeepAlive", "runtime.GC", "runtime.SetFinalizer")

	registerTime()
	registerContext()
	registerRegexp()
	registerReflect()
}

// toNative converts a fully concrete engine value into a Go value for fmt.
func (x *Exec) toNative(v Value) (interface{}, bool) {
	switch v := v.(type) {
	case nil:
		return nil, true
	case Iface:
		if v.T == nil {
			return nil, true
		}
		// errors: use message
		if p, ok := v.V.(*Value); ok && p != nil {
			if sv, ok := (*p).(StructV); ok && len(sv) == 1 {
				if s, ok := sv[0].(*Str); ok && s.IsConc() {
					return s.S, true
				}
			}
			return nil, false
		}
		if t, ok := v.V.(*Term); ok {
			if !t.IsConst() {
				return nil, false
			}
			b := basicOf(v.T)
			if b == nil {
				return nil, false
			}
			if b.Info()&types.IsBoolean != 0 {
				return t.U == 1, true
			}
			if _, signed, ok := intWidth(b); ok {
				if signed {
					return t.Int64(), true
				}
				return t.U, true
			}
			if _, ok := isFloat(b); ok {
				return t.Float64(), true
			}
		}
		return x.toNative(v.V)
	case *Str:
		if !v.IsConc() {
			return nil, false
		}
		return v.S, true
	case *Term:
		if !v.IsConst() {
			return nil, false
		}
		if v.S.K == KBool {
			return v.U == 1, true
		}
		if v.S.K == KFP {
			return v.Float64(), true
		}
		return v.U, true
	}
	return nil, false
}

func (x *Exec) wgCounter(p *Value) *int {
	if x.wgs == nil {
		x.wgs = map[*Value]*int{}
	}
	if n, ok := x.wgs[p]; ok {
		return n
	}
	n := new(int)
	x.wgs[p] = n
	return n
}

func (x *Exec) onceState(p *Value) *int {
	if x.onces == nil {
		x.onces = map[*Value]*int{}
	}
	if n, ok := x.onces[p]; ok {
		return n
	}
	n := new(int)
	x.onces[p] = n
	return n
}


// symSprintf handles formats made of %s / %v / %d verbs when some string
// arguments are symbolic (numbers must be concrete). Returns nil otherwise.
func (x *Exec) symSprintf(format string, args []Value) *Str {
	anySym := false
	for _, a := range args {
		if iv, ok := a.(Iface); ok {
			if s, ok := iv.V.(*Str); ok && !s.IsConc() && !s.Opaque {
				anySym = true
			}
		}
	}
	if !anySym {
		return nil
	}
	res := MkStr("")
	ai := 0
	for i := 0; i < len(format); i++ {
		c := format[i]
		if c != '%' {
			res = StrConcat(res, MkStr(string(c)))
			continue
		}
		i++
		if i >= len(format) {
			return nil
		}
		v := format[i]
		if v == '%' {
			res = StrConcat(res, MkStr("%"))
			continue
		}
		if ai >= len(args) || (v != 's' && v != 'v' && v != 'd') {
			return nil
		}
		a := args[ai]
		ai++
		iv, ok := a.(Iface)
		if !ok {
			return nil
		}
		if s, ok := iv.V.(*Str); ok {
			if s.Opaque {
				return nil
			}
			res = StrConcat(res, s)
			continue
		}
		n, ok := x.toNative(a)
		if !ok {
			return nil
		}
		res = StrConcat(res, MkStr(fmt.Sprintf("%"+string(v), n)))
	}
	return res
}
