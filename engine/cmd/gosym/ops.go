package main

import (
	"fmt"
	"go/token"
	"go/types"

	"golang.org/x/tools/go/ssa"
)

func (x *Exec) unop(in *ssa.UnOp, v Value) Value {
	switch in.Op {
	case token.MUL: // load
		p := v.(*Value)
		if p == nil {
			x.runtimePanic("invalid memory address or nil pointer dereference")
			return nil
		}
		return copyVal(*p)
	case token.NOT:
		return Not(v.(*Term))
	case token.SUB:
		t := v.(*Term)
		if t.S.K == KFP {
			return FPNeg(t)
		}
		return Neg(t)
	case token.XOR:
		return BNot(v.(*Term))
	}
	panic(fmt.Sprintf("unop %v", in.Op))
}

func basicOf(t types.Type) *types.Basic {
	b, _ := under(t).(*types.Basic)
	return b
}

func (x *Exec) binop(op token.Token, xt, yt types.Type, a, b Value) Value {
	switch op {
	case token.EQL:
		return x.equals(xt, a, b)
	case token.NEQ:
		return Not(x.equals(xt, a, b))
	}
	// strings
	if sa, ok := a.(*Str); ok {
		sb := b.(*Str)
		if sa.Opaque || sb.Opaque {
			if op == token.ADD {
				return &Str{Opaque: true}
			}
			x.unsupported("comparison of opaque string")
		}
		switch op {
		case token.ADD:
			return StrConcat(sa, sb)
		case token.LSS:
			return StrLess(sa, sb)
		case token.GTR:
			return StrLess(sb, sa)
		case token.LEQ:
			return Not(StrLess(sb, sa))
		case token.GEQ:
			return Not(StrLess(sa, sb))
		}
		panic("string binop " + op.String())
	}
	ta := a.(*Term)
	tb := b.(*Term)
	if ta.S.K == KBool {
		switch op {
		case token.AND, token.LAND:
			return And(ta, tb)
		case token.OR, token.LOR:
			return Or(ta, tb)
		case token.XOR:
			return Not(Eq(ta, tb))
		}
	}
	if ta.S.K == KFP {
		switch op {
		case token.ADD:
			return fpbin(OFPAdd, ta, tb)
		case token.SUB:
			return fpbin(OFPSub, ta, tb)
		case token.MUL:
			return fpbin(OFPMul, ta, tb)
		case token.QUO:
			return fpbin(OFPDiv, ta, tb)
		case token.LSS:
			return fpcmp(OFPLt, ta, tb)
		case token.LEQ:
			return fpcmp(OFPLe, ta, tb)
		case token.GTR:
			return fpcmp(OFPLt, tb, ta)
		case token.GEQ:
			return fpcmp(OFPLe, tb, ta)
		}
		panic("fp binop " + op.String())
	}
	bx := basicOf(xt)
	_, signed, _ := intWidth(bx)
	w := ta.S.W
	switch op {
	case token.ADD:
		return Add(ta, tb)
	case token.SUB:
		return Sub(ta, tb)
	case token.MUL:
		return Mul(ta, tb)
	case token.QUO, token.REM:
		z := Eq(tb, MkBV(w, 0))
		if !z.IsFalse() {
			if z.IsTrue() || x.choose([]*Term{z, Not(z)}, "divzero") == 0 {
				x.runtimePanic("integer divide by zero")
				return nil
			}
		}
		if op == token.QUO {
			if signed {
				return SDiv(ta, tb)
			}
			return UDiv(ta, tb)
		}
		if signed {
			return SRem(ta, tb)
		}
		return URem(ta, tb)
	case token.AND:
		return BAnd(ta, tb)
	case token.OR:
		return BOr(ta, tb)
	case token.XOR:
		return BXor(ta, tb)
	case token.AND_NOT:
		return BAnd(ta, BNot(tb))
	case token.SHL, token.SHR:
		// normalise shift count to width w (saturating)
		by := basicOf(yt)
		_, ysigned, _ := intWidth(by)
		cnt := tb
		if ysigned {
			neg := Slt(cnt, MkBV(cnt.S.W, 0))
			if !neg.IsFalse() {
				if neg.IsTrue() || x.choose([]*Term{neg, Not(neg)}, "negshift") == 0 {
					x.runtimePanic("negative shift amount")
					return nil
				}
			}
		}
		if cnt.S.W > w {
			big := Not(Ult(cnt, MkBV(cnt.S.W, uint64(w))))
			cnt = Ite(big, MkBV(w, uint64(w)), Extract(cnt, w-1, 0))
		} else if cnt.S.W < w {
			cnt = Zext(cnt, w)
		}
		if op == token.SHL {
			return Shl(ta, cnt)
		}
		if signed {
			return AShr(ta, cnt)
		}
		return LShr(ta, cnt)
	case token.LSS:
		if signed {
			return Slt(ta, tb)
		}
		return Ult(ta, tb)
	case token.LEQ:
		if signed {
			return Sle(ta, tb)
		}
		return Ule(ta, tb)
	case token.GTR:
		if signed {
			return Slt(tb, ta)
		}
		return Ult(tb, ta)
	case token.GEQ:
		if signed {
			return Sle(tb, ta)
		}
		return Ule(tb, ta)
	}
	panic("binop " + op.String())
}

// equals builds the Go == relation for two values of static type t.
func (x *Exec) equals(t types.Type, a, b Value) *Term {
	switch av := a.(type) {
	case nil:
		return MkBool(b == nil)
	case *Term:
		return Eq(av, b.(*Term))
	case *Str:
		bs := b.(*Str)
		if av.Opaque || bs.Opaque {
			x.unsupported("equality on opaque string")
		}
		return StrEq(av, bs)
	case *Value:
		switch bv := b.(type) {
		case *Value:
			return MkBool(av == bv)
		case *Native:
			return TFalse
		}
	case *Native:
		bn, ok := b.(*Native)
		if ok && av.Kind == "rtype" && bn.Kind == "rtype" {
			return MkBool(types.Identical(av.Obj.(types.Type), bn.Obj.(types.Type)))
		}
		return MkBool(ok && av == bn)
	case *MapV:
		return MkBool(av == b.(*MapV))
	case *ChanV:
		return MkBool(av == b.(*ChanV))
	case *Closure:
		bc := b.(*Closure)
		if av == nil || bc == nil {
			return MkBool(av == nil && bc == nil)
		}
		x.unsupported("func comparison")
	case SliceV:
		bs := b.(SliceV)
		// only comparison with nil is legal
		if bs.Nil && len(bs.A) == 0 {
			return MkBool(av.Nil)
		}
		if av.Nil && len(av.A) == 0 {
			return MkBool(bs.Nil)
		}
		x.unsupported("slice comparison")
	case Iface:
		bi := b.(Iface)
		if av.T == nil || bi.T == nil {
			return MkBool(av.T == nil && bi.T == nil)
		}
		if !types.Identical(av.T, bi.T) {
			return TFalse
		}
		if !types.Comparable(av.T) {
			x.goPanic(x.cur, Iface{T: runtimeErrT, V: MkStr("comparing uncomparable")}, "runtime error: comparing uncomparable type "+av.T.String(), true)
			return TFalse
		}
		return x.equals(av.T, av.V, bi.V)
	case StructV:
		bs := b.(StructV)
		st := under(t).(*types.Struct)
		cs := []*Term{}
		for i := range av {
			if st.Field(i).Name() == "_" {
				continue
			}
			cs = append(cs, x.equals(st.Field(i).Type(), av[i], bs[i]))
		}
		return And(cs...)
	case ArrayV:
		bs := b.(ArrayV)
		et := under(t).(*types.Array).Elem()
		cs := []*Term{}
		for i := range av {
			cs = append(cs, x.equals(et, av[i], bs[i]))
		}
		return And(cs...)
	}
	panic(fmt.Sprintf("equals %T %T", a, b))
}

func (x *Exec) convert(from, to types.Type, v Value) Value {
	uf, ut := under(from), under(to)
	// type params after instantiation should not appear
	switch tt := ut.(type) {
	case *types.Basic:
		if tt.Info()&types.IsString != 0 {
			switch ff := uf.(type) {
			case *types.Basic:
				if ff.Info()&types.IsString != 0 {
					return v
				}
				if ff.Info()&types.IsInteger != 0 {
					t := v.(*Term)
					if !t.IsConst() {
						return &Str{Opaque: true}
					}
					return MkStr(string(rune(t.Int64())))
				}
			case *types.Slice:
				sv := v.(SliceV)
				eb := basicOf(ff.Elem())
				if eb != nil && eb.Kind() == types.Uint8 {
					bs := make([]*Term, len(sv.A))
					for i, e := range sv.A {
						bs[i] = e.(*Term)
					}
					return StrFromBytes(bs)
				}
				// []rune -> string, concrete only
				rs := make([]rune, len(sv.A))
				for i, e := range sv.A {
					t := e.(*Term)
					if !t.IsConst() {
						x.unsupported("string([]rune symbolic)")
					}
					rs[i] = rune(t.Int64())
				}
				return MkStr(string(rs))
			}
		}
		if tt.Kind() == types.UnsafePointer {
			return v
		}
		if w, _, ok := intWidth(tt); ok {
			fb := basicOf(from)
			if fb == nil {
				x.unsupported("convert %s -> %s", from, to)
			}
			if fb.Kind() == types.UnsafePointer {
				x.unsupported("unsafe pointer to integer")
			}
			if _, isf := isFloat(fb); isf {
				r := FPToInt64(v.(*Term))
				return Extract(r, w-1, 0)
			}
			_, fsigned, _ := intWidth(fb)
			t := v.(*Term)
			if t.S.W >= w {
				return Extract(t, w-1, 0)
			}
			if fsigned {
				return Sext(t, w)
			}
			return Zext(t, w)
		}
		if fw, ok := isFloat(tt); ok {
			fb := basicOf(from)
			if _, isf := isFloat(fb); isf {
				return FPToFP(v.(*Term), fw)
			}
			_, fsigned, _ := intWidth(fb)
			if fsigned {
				return FPOfSBV(v.(*Term), fw)
			}
			return FPOfUBV(v.(*Term), fw)
		}
	case *types.Slice:
		if fb, ok := uf.(*types.Basic); ok && fb.Info()&types.IsString != 0 {
			s := v.(*Str)
			if s.Opaque {
				x.unsupported("[]byte(opaque string)")
			}
			eb := basicOf(tt.Elem())
			if eb.Kind() == types.Uint8 {
				bs := s.Bytes()
				a := make([]Value, len(bs))
				for i, b := range bs {
					a[i] = b
				}
				return SliceV{A: a}
			}
			if !s.IsConc() {
				x.unsupported("[]rune(symbolic string)")
			}
			rs := []rune(s.S)
			a := make([]Value, len(rs))
			for i, r := range rs {
				a[i] = MkBV(32, uint64(r))
			}
			return SliceV{A: a}
		}
		return v
	case *types.Pointer:
		return v
	}
	if types.Identical(uf, ut) {
		return v
	}
	x.unsupported("convert %s -> %s", from, to)
	return nil
}

// ---------- maps ----------

// keyEq returns the equality term for map keys.
func (x *Exec) keyEq(kt types.Type, a, b Value) *Term {
	return x.equals(kt, a, b)
}

// mapFind returns the entry for key or nil, forking on symbolic key equality.
func (x *Exec) mapFind(m *MapV, key Value) *mapEntry {
	if m == nil {
		return nil
	}
	if iv, ok := key.(Iface); ok && iv.T != nil && !types.Comparable(iv.T) {
		x.goPanic(x.cur, Iface{T: runtimeErrT, V: MkStr("hash of unhashable type")}, "runtime error: hash of unhashable type "+iv.T.String(), true)
		return nil
	}
	var cands []*mapEntry
	var conds []*Term
	for _, e := range m.Entries {
		if e.Deleted {
			continue
		}
		c := x.keyEq(m.KT, key, e.K)
		if c.IsTrue() {
			return e
		}
		if c.IsFalse() {
			continue
		}
		cands = append(cands, e)
		conds = append(conds, c)
	}
	if len(cands) == 0 {
		return nil
	}
	none := make([]*Term, len(conds))
	for i, c := range conds {
		none[i] = Not(c)
	}
	all := append(append([]*Term{}, conds...), And(none...))
	k := x.choose(all, "mapkey")
	if k == len(cands) {
		return nil
	}
	return cands[k]
}

func (x *Exec) mapSet(m *MapV, key, val Value) {
	e := x.mapFind(m, key)
	if x.raised {
		return
	}
	if e != nil {
		e.V = copyVal(val)
		return
	}
	m.Entries = append(m.Entries, &mapEntry{K: copyVal(key), V: copyVal(val)})
	// compact tombstones occasionally
	if len(m.Entries) > 32 {
		live := m.Entries[:0:0]
		for _, e := range m.Entries {
			if !e.Deleted {
				live = append(live, e)
			}
		}
		m.Entries = live
	}
}

func (x *Exec) mapDelete(m *MapV, key Value) {
	if m == nil {
		return
	}
	e := x.mapFind(m, key)
	if e != nil {
		e.Deleted = true
	}
}

func (x *Exec) lookup(fr *Frame, in *ssa.Lookup) {
	base := x.get(fr, in.X)
	if s, ok := base.(*Str); ok {
		if s.Opaque {
			x.unsupported("index into opaque string")
		}
		i := x.concIndex(x.get(fr, in.Index).(*Term), s.Len(), "string")
		if i < 0 {
			return
		}
		x.set(fr, in, s.Byte(i))
		return
	}
	m := base.(*MapV)
	vt := under(in.X.Type()).(*types.Map).Elem()
	e := x.mapFind(m, x.get(fr, in.Index))
	if x.raised {
		return
	}
	var v Value
	if e != nil {
		v = copyVal(e.V)
	} else {
		v = zero(vt)
	}
	if in.CommaOk {
		x.set(fr, in, TupleV{v, MkBool(e != nil)})
	} else {
		x.set(fr, in, v)
	}
}

// ---------- range ----------

type rangeIter struct {
	m    *MapV
	snap []*mapEntry
	i    int
	s    *Str
}

func (x *Exec) mkRange(fr *Frame, in *ssa.Range) Value {
	v := x.get(fr, in.X)
	switch v := v.(type) {
	case *MapV:
		it := &rangeIter{m: v}
		if v != nil {
			for _, e := range v.Entries {
				if !e.Deleted {
					it.snap = append(it.snap, e)
				}
			}
			if x.mapOrderND && len(it.snap) > 1 {
				// explore rotations of the iteration order
				k := x.chooseFree(len(it.snap), "maporder")
				it.snap = append(append([]*mapEntry{}, it.snap[k:]...), it.snap[:k]...)
			}
		}
		return &Native{Kind: "rangeiter", Obj: it}
	case *Str:
		if !v.IsConc() {
			// allow when every byte is provably ASCII const? no: unsupported
			x.unsupported("range over symbolic string")
		}
		return &Native{Kind: "rangeiter", Obj: &rangeIter{s: v}}
	}
	panic(fmt.Sprintf("range over %T", v))
}

func (x *Exec) next(in *ssa.Next, itv Value) Value {
	it := itv.(*Native).Obj.(*rangeIter)
	if in.IsString {
		s := it.s.S
		if it.i >= len(s) {
			return TupleV{TFalse, MkBV(64, 0), MkBV(32, 0)}
		}
		var r rune
		var sz int
		for j, rr := range s[it.i:] {
			if j == 0 {
				r = rr
				sz = len(string(rr))
				if rr == 0xFFFD {
					sz = 1
				}
				break
			}
		}
		// recompute size properly
		sz = runeLen(s[it.i:])
		idx := it.i
		it.i += sz
		return TupleV{TTrue, MkBV(64, uint64(idx)), MkBV(32, uint64(r))}
	}
	tt := in.Type().(*types.Tuple)
	for it.i < len(it.snap) {
		e := it.snap[it.i]
		it.i++
		if e.Deleted {
			continue
		}
		return TupleV{TTrue, copyVal(e.K), copyVal(e.V)}
	}
	var kz, vz Value
	if _, ok := tt.At(1).Type().(*types.Basic); ok && tt.At(1).Type().(*types.Basic).Kind() == types.Invalid {
		kz = nil
	} else {
		kz = zeroSafe(tt.At(1).Type())
	}
	vz = zeroSafe(tt.At(2).Type())
	return TupleV{TFalse, kz, vz}
}

func zeroSafe(t types.Type) Value {
	if b, ok := t.(*types.Basic); ok && b.Kind() == types.Invalid {
		return nil
	}
	return zero(t)
}

func runeLen(s string) int {
	for i := range s {
		if i > 0 {
			return i
		}
	}
	return len(s)
}

// ---------- builtins ----------

func (x *Exec) builtin(g *G, b *ssa.Builtin, args []Value, cc *ssa.CallCommon) Value {
	switch b.Name() {
	case "len":
		switch a := args[0].(type) {
		case *Str:
			if a.Opaque {
				x.unsupported("len of opaque string")
			}
			return MkBV(64, uint64(a.Len()))
		case SliceV:
			return MkBV(64, uint64(len(a.A)))
		case *MapV:
			if a == nil {
				return MkBV(64, 0)
			}
			return MkBV(64, uint64(a.Len()))
		case *ChanV:
			if a == nil {
				return MkBV(64, 0)
			}
			return MkBV(64, uint64(len(a.Buf)))
		case ArrayV:
			return MkBV(64, uint64(len(a)))
		case *Value:
			if a == nil {
				// len of nil *array is the array length (static); use type
				at := under(cc.Args[0].Type().(*types.Pointer).Elem()).(*types.Array)
				return MkBV(64, uint64(at.Len()))
			}
			return MkBV(64, uint64(len((*a).(ArrayV))))
		}
	case "cap":
		switch a := args[0].(type) {
		case SliceV:
			return MkBV(64, uint64(cap(a.A)))
		case *ChanV:
			if a == nil {
				return MkBV(64, 0)
			}
			return MkBV(64, uint64(a.Cap))
		case ArrayV:
			return MkBV(64, uint64(len(a)))
		}
	case "append":
		s := args[0].(SliceV)
		switch t := args[1].(type) {
		case SliceV:
			if len(t.A) == 0 {
				return s
			}
			na := append(s.A, copyVals(t.A)...)
			return SliceV{A: na}
		case *Str:
			if t.Opaque {
				x.unsupported("append opaque string")
			}
			bs := t.Bytes()
			vs := make([]Value, len(bs))
			for i, bb := range bs {
				vs[i] = bb
			}
			if len(vs) == 0 {
				return s
			}
			return SliceV{A: append(s.A, vs...)}
		}
	case "copy":
		dst := args[0].(SliceV)
		var src []Value
		switch t := args[1].(type) {
		case SliceV:
			src = t.A
		case *Str:
			for _, bb := range t.Bytes() {
				src = append(src, bb)
			}
		}
		n := copy(dst.A, copyVals(src))
		return MkBV(64, uint64(n))
	case "delete":
		x.mapDelete(args[0].(*MapV), args[1])
		return nil
	case "close":
		x.chanClose(g, args[0].(*ChanV))
		return nil
	case "panic":
		x.goPanic(g, args[0], "panic: "+x.showPanicVal(args[0]), false)
		return nil
	case "recover":
		if g.panic != nil {
			p := g.panic
			g.panic = nil
			if p.Val == nil {
				return Iface{T: runtimeErrT, V: MkStr(p.Msg)}
			}
			return p.Val
		}
		return Iface{}
	case "print", "println":
		return nil
	case "min", "max":
		t0 := args[0].(*Term)
		bt := basicOf(cc.Args[0].Type())
		_, signed, _ := intWidth(bt)
		acc := t0
		for _, a := range args[1:] {
			t := a.(*Term)
			var lt *Term
			if t.S.K == KFP {
				lt = fpcmp(OFPLt, t, acc)
			} else if signed {
				lt = Slt(t, acc)
			} else {
				lt = Ult(t, acc)
			}
			if b.Name() == "min" {
				acc = Ite(lt, t, acc)
			} else {
				acc = Ite(lt, acc, t)
			}
		}
		return acc
	case "clear":
		switch a := args[0].(type) {
		case *MapV:
			if a != nil {
				for _, e := range a.Entries {
					e.Deleted = true
				}
			}
		}
		return nil
	case "ssa:wrapnilchk":
		p := args[0].(*Value)
		if p == nil {
			x.runtimePanic("value method called using nil pointer")
			return nil
		}
		return p
	}
	x.unsupported("builtin %s(%T)", b.Name(), args[0])
	return nil
}

func copyVals(vs []Value) []Value {
	out := make([]Value, len(vs))
	for i, v := range vs {
		out[i] = copyVal(v)
	}
	return out
}
