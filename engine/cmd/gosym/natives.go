package main

import (
	"fmt"
	"go/token"
	"go/types"
	"regexp/syntax"
	"strconv"
	"strings"

	"golang.org/x/tools/go/ssa"
)

// ---------- time ----------

// Engine encoding of time.Time: {wall=0, ext=virtual ns instant, loc=nil}.
// The zero Time is ext==0. Every method of time.Time that is used must be an
// intrinsic below; any other method of time.Time is refused (unsupported).
func (x *Exec) timeValue(ns *Term) Value {
	return StructV{MkBV(64, 0), ns, (*Value)(nil)}
}

func timeExt(v Value) *Term {
	switch t := v.(type) {
	case StructV:
		return t[1].(*Term)
	case *Value:
		return (*t).(StructV)[1].(*Term)
	}
	panic("timeExt")
}

func registerTime() {
	reg("time.Now", func(x *Exec, g *G, a []Value) Value { return x.timeValue(x.now) })
	reg("time.Since", func(x *Exec, g *G, a []Value) Value { return Sub(x.now, timeExt(a[0])) })
	reg("time.Until", func(x *Exec, g *G, a []Value) Value { return Sub(timeExt(a[0]), x.now) })
	reg("(time.Time).Sub", func(x *Exec, g *G, a []Value) Value { return Sub(timeExt(a[0]), timeExt(a[1])) })
	reg("(time.Time).Add", func(x *Exec, g *G, a []Value) Value { return x.timeValue(Add(timeExt(a[0]), a[1].(*Term))) })
	reg("(time.Time).Before", func(x *Exec, g *G, a []Value) Value { return Slt(timeExt(a[0]), timeExt(a[1])) })
	reg("(time.Time).After", func(x *Exec, g *G, a []Value) Value { return Slt(timeExt(a[1]), timeExt(a[0])) })
	reg("(time.Time).Equal", func(x *Exec, g *G, a []Value) Value { return Eq(timeExt(a[0]), timeExt(a[1])) })
	reg("(time.Time).IsZero", func(x *Exec, g *G, a []Value) Value { return Eq(timeExt(a[0]), MkBV(64, 0)) })
	reg("(time.Time).UnixNano", func(x *Exec, g *G, a []Value) Value { return timeExt(a[0]) })
	reg("(time.Time).Unix", func(x *Exec, g *G, a []Value) Value { return SDiv(timeExt(a[0]), MkBV(64, 1_000_000_000)) })
	reg("(time.Time).UnixMilli", func(x *Exec, g *G, a []Value) Value { return SDiv(timeExt(a[0]), MkBV(64, 1_000_000)) })
	reg("(time.Time).UTC", func(x *Exec, g *G, a []Value) Value { return a[0] })
	reg("(time.Time).Local", func(x *Exec, g *G, a []Value) Value { return a[0] })
	reg("(time.Time).Round", func(x *Exec, g *G, a []Value) Value { return a[0] })
	reg("(time.Time).Format", func(x *Exec, g *G, a []Value) Value {
		t := timeExt(a[0])
		if t.IsConst() {
			return MkStr(fmt.Sprintf("T%d", t.U))
		}
		return &Str{Opaque: true}
	})
	reg("(time.Time).String", func(x *Exec, g *G, a []Value) Value { return &Str{Opaque: true} })
	reg("time.Parse", func(x *Exec, g *G, a []Value) Value {
		// a string produced by the Format model above denotes exactly that instant
		if s, ok := a[1].(*Str); ok && s.IsConc() && len(s.S) > 1 && s.S[0] == 'T' {
			if ns, err := strconv.ParseUint(s.S[1:], 10, 64); err == nil {
				return TupleV{x.timeValue(MkBV(64, ns)), Iface{}}
			}
		}
		// contract: returns an arbitrary instant or an error (nondeterministic)
		fail := x.inputEnv("time.Parse.fails", "bool", SBool)
		ns := x.inputEnv("time.Parse.ns", "i64", SBV64)
		var isFail bool
		if x.choose([]*Term{fail, Not(fail)}, "timeparse") == 0 {
			isFail = true
		}
		if isFail {
			return TupleV{x.timeValue(MkBV(64, 0)), x.mkError(MkStr("parsing time: invalid"))}
		}
		return TupleV{x.timeValue(ns), Iface{}}
	})
	intrinsicPrefix["(time.Time)."] = func(x *Exec, g *G, fn *ssa.Function, args []Value) (Value, bool) {
		x.unsupported("time.Time method %s not modelled", fn)
		return nil, true
	}
	intrinsicPrefix["(*time.Time)."] = intrinsicPrefix["(time.Time)."]

	mkTimeChan := func(x *Exec) *ChanV {
		x.chanN++
		return &ChanV{ID: x.chanN, Cap: 1, ET: x.timeType()}
	}
	reg("time.After", func(x *Exec, g *G, a []Value) Value {
		ch := mkTimeChan(x)
		x.addTimer(a[0].(*Term), ch, nil)
		return ch
	})
	reg("time.NewTimer", func(x *Exec, g *G, a []Value) Value {
		ch := mkTimeChan(x)
		t := x.addTimer(a[0].(*Term), ch, nil)
		cell := new(Value)
		*cell = StructV{ch, TFalse}
		x.natTimers[cell] = t
		return cell
	})
	reg("time.AfterFunc", func(x *Exec, g *G, a []Value) Value {
		f := a[1].(*Closure)
		t := x.addTimer(a[0].(*Term), nil, nil)
		t.fn = func() {
			ng := x.newG("afterfunc")
			save := x.cur
			x.cur = ng
			nf := x.callValue(ng, f, nil, nil, nil)
			x.cur = save
			if nf == nil && len(ng.frames) == 0 {
				ng.done = true
			}
		}
		cell := new(Value)
		*cell = StructV{(*ChanV)(nil), TFalse}
		x.natTimers[cell] = t
		return cell
	})
	reg("(*time.Timer).Stop", func(x *Exec, g *G, a []Value) Value {
		t := x.natTimers[a[0].(*Value)]
		if t == nil {
			x.unsupported("Stop on unknown timer")
		}
		was := t.active
		t.active = false
		return MkBool(was)
	})
	reg("(*time.Timer).Reset", func(x *Exec, g *G, a []Value) Value {
		t := x.natTimers[a[0].(*Value)]
		if t == nil {
			x.unsupported("Reset on unknown timer")
		}
		was := t.active
		t.active = true
		t.deadline = Add(x.now, a[1].(*Term))
		// Go 1.23+: Reset drains stale value from channel
		if t.ch != nil {
			t.ch.Buf = nil
		}
		return MkBool(was)
	})
	reg("time.Sleep", func(x *Exec, g *G, a []Value) Value {
		d := a[0].(*Term)
		key := g
		if st, ok := x.sleeping[key]; ok {
			if *st {
				delete(x.sleeping, key)
				return nil
			}
		}
		fired := new(bool)
		x.sleeping[key] = fired
		t := x.addTimer(d, nil, nil)
		t.fn = func() { *fired = true }
		g.wcond = func() bool { return *fired }
		x.block(g, wCond, "sleep")
		return nil
	})
	// Ticker: a timer that re-arms itself every period (ticks are dropped when
	// the channel still holds one, as in Go). More than 16 firings of one
	// ticker on a path end the path as an exceeded unwind bound.
	reg("time.NewTicker", func(x *Exec, g *G, a []Value) Value {
		d := a[0].(*Term)
		ch := mkTimeChan(x)
		t := x.addTimer(d, ch, nil)
		fires := 0
		t.fn = func() {
			fires++
			if fires > 16 {
				x.end("unwind", "ticker fired more than 16 times")
			}
			t.deadline = Add(t.deadline, d)
			t.active = true
		}
		cell := new(Value)
		*cell = StructV{ch, TFalse}
		x.natTimers[cell] = t
		return cell
	})
	reg("(*time.Ticker).Stop", func(x *Exec, g *G, a []Value) Value {
		t := x.natTimers[a[0].(*Value)]
		if t == nil {
			x.unsupported("Stop on unknown ticker")
		}
		t.active = false
		return nil
	})
	reg("github.com/gorilla/websocket.FormatCloseMessage", func(x *Exec, g *G, a []Value) Value {
		code := a[0].(*Term)
		text := a[1].(*Str)
		if !code.IsConst() || !text.IsConc() {
			x.unsupported("FormatCloseMessage with symbolic arguments")
		}
		bs := append([]byte{byte(code.U >> 8), byte(code.U)}, text.S...)
		out := make([]Value, len(bs))
		for i, b := range bs {
			out[i] = MkBV(8, uint64(b))
		}
		return SliceV{A: out}
	})
}

func (x *Exec) timeType() types.Type {
	return x.P.ssa.ImportedPackage("time").Pkg.Scope().Lookup("Time").Type()
}

// ---------- context ----------

type ctxObj struct {
	done     *ChanV
	err      Value // Iface
	parent   *ctxObj
	children []*ctxObj
	deadline *Term
	timer    *Timer
	bg       bool
}

var nativeCtxType = types.NewNamed(types.NewTypeName(token.NoPos, nil, "gosym.nativeCtx", nil), types.NewStruct(nil, nil), nil)

func (x *Exec) ctxErrGlobal(name string) Value {
	pkg := x.P.ssa.ImportedPackage("context")
	g := pkg.Var(name)
	cell := x.global(g).(*Value)
	return *cell
}

func (x *Exec) cancelCtx(c *ctxObj, err Value) {
	if c.err != nil {
		return
	}
	c.err = err
	if c.timer != nil {
		c.timer.active = false
	}
	if !c.done.Closed {
		x.chanClose(x.cur, c.done)
	}
	for _, ch := range c.children {
		x.cancelCtx(ch, err)
	}
}

func (x *Exec) newCtx(parent Value) *ctxObj {
	x.chanN++
	c := &ctxObj{done: &ChanV{ID: x.chanN, ET: types.NewStruct(nil, nil)}}
	if pi, ok := parent.(Iface); ok && pi.T != nil {
		if pn := x.asNative(pi.V); pn != nil && pn.Kind == "ctx" {
			po := pn.Obj.(*ctxObj)
			c.parent = po
			if po.err != nil {
				c.err = po.err
				c.done.Closed = true
			} else if !po.bg {
				po.children = append(po.children, c)
			}
		} else {
			x.unsupported("context derived from non-native context")
		}
	}
	return c
}

func ctxIface(c *ctxObj) Value {
	return Iface{T: nativeCtxType, V: &Native{Kind: "ctx", Obj: c}}
}

func registerContext() {
	bg := func(x *Exec, g *G, a []Value) Value {
		if x.bgCtx == nil {
			x.bgCtx = &ctxObj{bg: true}
		}
		return ctxIface(x.bgCtx)
	}
	reg("context.Background", bg)
	reg("context.TODO", bg)
	reg("context.WithCancel", func(x *Exec, g *G, a []Value) Value {
		c := x.newCtx(a[0])
		cancel := &Closure{Name: "cancel", Nat: func(x *Exec, _ []Value) Value {
			x.cancelCtx(c, x.ctxErrGlobal("Canceled"))
			return nil
		}}
		return TupleV{ctxIface(c), cancel}
	})
	withDeadline := func(x *Exec, parent Value, d *Term) Value {
		c := x.newCtx(parent)
		c.deadline = Add(x.now, d)
		if c.err == nil {
			c.timer = x.addTimer(d, nil, nil)
			c.timer.fn = func() { x.cancelCtx(c, x.ctxErrGlobal("DeadlineExceeded")) }
		}
		cancel := &Closure{Name: "cancel", Nat: func(x *Exec, _ []Value) Value {
			x.cancelCtx(c, x.ctxErrGlobal("Canceled"))
			return nil
		}}
		return TupleV{ctxIface(c), cancel}
	}
	reg("context.WithTimeout", func(x *Exec, g *G, a []Value) Value { return withDeadline(x, a[0], a[1].(*Term)) })
	reg("context.WithDeadline", func(x *Exec, g *G, a []Value) Value {
		return withDeadline(x, a[0], Sub(timeExt(a[1]), x.now))
	})
	reg("context.WithValue", func(x *Exec, g *G, a []Value) Value {
		// values are not modelled; the derived context shares cancellation
		return a[0]
	})
}

func (x *Exec) nativeMethod(n *Native, name string, args []Value) Value {
	switch n.Kind {
	case "ctx":
		c := n.Obj.(*ctxObj)
		switch name {
		case "Done":
			if c.bg {
				return (*ChanV)(nil)
			}
			return c.done
		case "Err":
			if c.err == nil {
				return Iface{}
			}
			return c.err
		case "Value":
			return Iface{}
		case "Deadline":
			if c.deadline == nil {
				return TupleV{x.timeValue(MkBV(64, 0)), TFalse}
			}
			return TupleV{x.timeValue(c.deadline), TTrue}
		}
	}
	if n.Kind == "rtype" {
		return x.rtypeMethod(n.Obj.(types.Type), name, args)
	}
	x.unsupported("native method %s.%s", n.Kind, name)
	return nil
}

// ---------- regexp ----------

type nativeRegexp struct {
	pat  string
	prog *syntax.Prog
}

func registerRegexp() {
	compile := func(x *Exec, g *G, a []Value) Value {
		pat, ok := x.concStr(a[0], "regexp pattern")
		if !ok {
			x.unsupported("symbolic regexp pattern")
		}
		re, err := syntax.Parse(pat, syntax.Perl)
		if err != nil {
			x.goPanic(g, Iface{T: runtimeErrT, V: MkStr("regexp: Compile: " + err.Error())}, "regexp: Compile: "+err.Error(), false)
			return nil
		}
		prog, err := syntax.Compile(re.Simplify())
		if err != nil {
			x.unsupported("regexp compile: %v", err)
		}
		return &Native{Kind: "regexp", Obj: &nativeRegexp{pat: pat, prog: prog}}
	}
	reg("regexp.MustCompile", compile)
	reg("(*regexp.Regexp).MatchString", func(x *Exec, g *G, a []Value) Value {
		n, ok := a[0].(*Native)
		if !ok {
			x.runtimePanic("nil regexp")
			return nil
		}
		s := a[1].(*Str)
		if s.Opaque {
			x.unsupported("regexp match on opaque string")
		}
		return x.regexMatch(n.Obj.(*nativeRegexp), s.Bytes())
	})
	reg("(*regexp.Regexp).String", func(x *Exec, g *G, a []Value) Value {
		return MkStr(a[0].(*Native).Obj.(*nativeRegexp).pat)
	})
}

// runePred builds the byte-level predicate for an InstRune* instruction.
func (x *Exec) runePred(in *syntax.Inst, b *Term) *Term {
	switch in.Op {
	case syntax.InstRuneAny:
		return TTrue
	case syntax.InstRuneAnyNotNL:
		return Not(Eq(b, MkBV(8, '\n')))
	}
	rs := in.Rune
	fold := syntax.Flags(in.Arg)&syntax.FoldCase != 0
	if len(rs) == 1 {
		r := rs[0]
		if r >= 0x80 {
			x.unsupported("regexp: non-ASCII literal rune")
		}
		if fold {
			lo := strings.ToLower(string(r))[0]
			up := strings.ToUpper(string(r))[0]
			return Or(Eq(b, MkBV(8, uint64(lo))), Eq(b, MkBV(8, uint64(up))))
		}
		return Eq(b, MkBV(8, uint64(r)))
	}
	if fold {
		x.unsupported("regexp: case-folded class")
	}
	var alts []*Term
	// coverage of non-ASCII must be all-or-nothing
	var hiCovered rune = 0x80
	anyHi := false
	for i := 0; i+1 < len(rs); i += 2 {
		lo, hi := rs[i], rs[i+1]
		if hi >= 0x80 {
			anyHi = true
			l := lo
			if l < 0x80 {
				l = 0x80
			}
			if l <= hiCovered {
				if hi+1 > hiCovered {
					hiCovered = hi + 1
				}
			}
		}
		if lo < 0x80 {
			h := hi
			if h > 0x7f {
				h = 0x7f
			}
			if lo == h {
				alts = append(alts, Eq(b, MkBV(8, uint64(lo))))
			} else {
				alts = append(alts, And(Ule(MkBV(8, uint64(lo)), b), Ule(b, MkBV(8, uint64(h)))))
			}
		}
	}
	if anyHi {
		if hiCovered <= 0x10FFFF {
			x.unsupported("regexp: class covers only part of the non-ASCII range")
		}
		alts = append(alts, Ule(MkBV(8, 0x80), b))
	}
	return Or(alts...)
}

// regexMatch simulates the compiled program over symbolic bytes (Pike VM with
// Boolean activation terms). Byte-level: exact for classes that are ASCII-only
// or contain the whole non-ASCII range (checked in runePred).
func (x *Exec) regexMatch(re *nativeRegexp, bs []*Term) *Term {
	prog := re.prog
	n := len(bs)
	type set map[int]*Term
	matched := TFalse
	addState := func(st set, pos int, pc0 int, cond0 *Term) {
		type item struct {
			pc   int
			cond *Term
		}
		work := []item{{pc0, cond0}}
		seen := map[int]bool{}
		for len(work) > 0 {
			it := work[len(work)-1]
			work = work[:len(work)-1]
			if it.cond.IsFalse() || seen[it.pc] {
				continue
			}
			seen[it.pc] = true
			in := &prog.Inst[it.pc]
			switch in.Op {
			case syntax.InstFail:
			case syntax.InstAlt, syntax.InstAltMatch:
				work = append(work, item{int(in.Arg), it.cond}, item{int(in.Out), it.cond})
			case syntax.InstNop, syntax.InstCapture:
				work = append(work, item{int(in.Out), it.cond})
			case syntax.InstEmptyWidth:
				op := syntax.EmptyOp(in.Arg)
				ok := true
				if op&syntax.EmptyBeginText != 0 && pos != 0 {
					ok = false
				}
				if op&syntax.EmptyEndText != 0 && pos != n {
					ok = false
				}
				if op&(syntax.EmptyBeginLine|syntax.EmptyEndLine|syntax.EmptyWordBoundary|syntax.EmptyNoWordBoundary) != 0 {
					x.unsupported("regexp: line/word assertions")
				}
				if ok {
					work = append(work, item{int(in.Out), it.cond})
				}
			case syntax.InstMatch:
				matched = Or(matched, it.cond)
			default: // rune instructions
				if old, ok := st[it.pc]; ok {
					st[it.pc] = Or(old, it.cond)
				} else {
					st[it.pc] = it.cond
				}
			}
		}
	}
	// NOTE: closure with Or-accumulation may revisit; conditions are monotone
	cur := set{}
	for pos := 0; pos <= n; pos++ {
		// unanchored search: a match may start at every position
		addState(cur, pos, prog.Start, TTrue)
		if pos == n {
			break
		}
		next := set{}
		// deterministic order
		pcs := make([]int, 0, len(cur))
		for pc := range cur {
			pcs = append(pcs, pc)
		}
		sortInts(pcs)
		for _, pc := range pcs {
			in := &prog.Inst[pc]
			c := And(cur[pc], x.runePred(in, bs[pos]))
			addState(next, pos+1, int(in.Out), c)
		}
		cur = next
	}
	return matched
}

func sortInts(a []int) {
	for i := 1; i < len(a); i++ {
		for j := i; j > 0 && a[j] < a[j-1]; j-- {
			a[j], a[j-1] = a[j-1], a[j]
		}
	}
}
