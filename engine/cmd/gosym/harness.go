package main

// Harness runtime (the v* functions) as seen by the engine, and path driver.

import (
	"fmt"
	"go/types"
	"runtime/debug"
	"sort"
	"strings"

	"golang.org/x/tools/go/ssa"
)

func (h *Harness) ownPkg(p *ssa.Package) bool {
	if p == nil || p.Pkg == nil {
		return false
	}
	return h.ownPkgs[p.Pkg.Path()] || strings.HasPrefix(p.Pkg.Path(), "github.com/gammazero/nexus/")
}

// isVrt: functions named v[A-Z]... declared in a zz_verif_vrt*.go file.
func (h *Harness) isVrt(fn *ssa.Function) bool {
	if fn.Pkg == nil || fn.Signature.Recv() != nil || fn.Parent() != nil {
		return false
	}
	n := fn.Name()
	if len(n) < 2 || n[0] != 'v' || n[1] < 'A' || n[1] > 'Z' {
		return false
	}
	pos := h.P.ssa.Fset.Position(fn.Pos())
	return strings.Contains(pos.Filename, "zz_verif_vrt")
}

type knownRegion struct {
	id   string
	cond *Term
}

func (x *Exec) freshVar(name string, s Sort) *Term {
	x.fresh++
	vn := fmt.Sprintf("v%d_%s", x.fresh, sanitize(name))
	return MkVar(vn, s)
}

func sanitize(s string) string {
	var sb strings.Builder
	for _, c := range s {
		if (c >= 'a' && c <= 'z') || (c >= 'A' && c <= 'Z') || (c >= '0' && c <= '9') || c == '_' {
			sb.WriteRune(c)
		} else {
			sb.WriteByte('_')
		}
	}
	return sb.String()
}

func (x *Exec) input(name, kind string, s Sort) *Term {
	t := x.freshVar(name, s)
	x.inputs = append(x.inputs, &inputRec{Name: name, Kind: kind, Term: t})
	return t
}

// inputEnv: nondeterminism of the environment (random ids, parse results):
// symbolic in the engine, not controllable in a native replay.
func (x *Exec) inputEnv(name, kind string, s Sort) *Term {
	t := x.freshVar(name, s)
	x.inputs = append(x.inputs, &inputRec{Name: name, Kind: kind, Term: t, Env: true})
	return t
}

func (x *Exec) strArg(v Value) string {
	s := v.(*Str)
	if !s.IsConc() {
		x.unsupported("vrt name argument must be concrete")
	}
	return s.S
}

func (x *Exec) symString(name string, n int) *Str {
	if n == 0 {
		x.inputs = append(x.inputs, &inputRec{Name: name, Kind: "str"})
		return MkStr("")
	}
	bs := make([]*Term, n)
	for i := range bs {
		bs[i] = x.freshVar(fmt.Sprintf("%s_%d", name, i), SBV8)
	}
	x.inputs = append(x.inputs, &inputRec{Name: name, Kind: "str", Terms: bs})
	return &Str{B: bs}
}

func (x *Exec) vrtCall(g *G, fn *ssa.Function, args []Value) Value {
	switch fn.Name() {
	case "vBool":
		return x.input(x.strArg(args[0]), "bool", SBool)
	case "vInt64", "vInt":
		return x.input(x.strArg(args[0]), "i64", SBV64)
	case "vUint64":
		return x.input(x.strArg(args[0]), "u64", SBV64)
	case "vInt32":
		return x.input(x.strArg(args[0]), "i32", BV(32))
	case "vUint32":
		return x.input(x.strArg(args[0]), "u32", BV(32))
	case "vByte":
		return x.input(x.strArg(args[0]), "u8", SBV8)
	case "vFloat64":
		return x.input(x.strArg(args[0]), "f64", SFP64)
	case "vFloat32":
		return x.input(x.strArg(args[0]), "f32", SFP32)
	case "vChoice":
		name := x.strArg(args[0])
		n := x.concInt(args[1], "vChoice n")
		k := x.chooseFree(n, "vChoice:"+name)
		x.inputs = append(x.inputs, &inputRec{Name: name, Kind: "choice", Choice: k, N: n})
		return MkBV(64, uint64(k))
	case "vString":
		name := x.strArg(args[0])
		max := x.concInt(args[1], "vString max")
		n := x.chooseFree(max+1, "vStringLen:"+name)
		x.inputs = append(x.inputs, &inputRec{Name: name + ".len", Kind: "choice", Choice: n, N: max + 1})
		return x.symString(name, n)
	case "vStringN":
		return x.symString(x.strArg(args[0]), x.concInt(args[1], "vStringN n"))
	case "vBytes":
		name := x.strArg(args[0])
		n := x.concInt(args[1], "vBytes n")
		s := x.symString(name, n)
		a := make([]Value, n)
		for i := 0; i < n; i++ {
			a[i] = s.Byte(i)
		}
		return SliceV{A: a}
	case "vAssume":
		c := args[0].(*Term)
		if c.IsFalse() {
			x.end("infeasible", "assume false")
		}
		if !c.IsTrue() {
			if x.tpos >= len(x.prefix) {
				if x.checkSat(c) == "unsat" {
					x.end("infeasible", "assume unsat")
				}
			}
			x.assume(c)
		}
		return nil
	case "vAssert":
		x.assertion(x.strArg(args[0]), args[1].(*Term))
		return nil
	case "vCover":
		x.cover(x.strArg(args[0]))
		return nil
	case "vAnd":
		return And(args[0].(*Term), args[1].(*Term))
	case "vOr":
		return Or(args[0].(*Term), args[1].(*Term))
	case "vImplies":
		return Implies(args[0].(*Term), args[1].(*Term))
	case "vIteInt64", "vIteUint64", "vIteInt":
		return Ite(args[0].(*Term), args[1].(*Term), args[2].(*Term))
	case "vIteBool":
		return Ite(args[0].(*Term), args[1].(*Term), args[2].(*Term))
	case "vKnown":
		x.known = append(x.known, knownRegion{x.strArg(args[0]), args[1].(*Term)})
		return nil
	case "vQuiesce":
		// let everything else run until blocked; the caller resumes only when
		// no other goroutine is runnable (also under delay-bounded scheduling)
		if x.quiesced[g] {
			delete(x.quiesced, g)
			return nil
		}
		others := false
		for _, o := range x.gs {
			if o != g && o.runnable() && !o.stalled {
				others = true
			}
		}
		if !others {
			return nil
		}
		x.quiesced[g] = true
		g.wcond = func() bool {
			for _, o := range x.gs {
				if o != g && o.runnable() && !o.stalled {
					return false
				}
			}
			return true
		}
		x.block(g, wCond, "quiesce")
		return nil
	case "vNow":
		return x.now
	case "vAdvance":
		// Event-driven: timers that become due fire one at a time in deadline
		// order, and the goroutines they wake run until blocked before the next
		// one fires (as on a real clock). The call instruction is re-executed
		// after every block until nothing more is due.
		othersRunnable := func() bool {
			for _, o := range x.gs {
				if o != g && o.runnable() && !o.stalled {
					return true
				}
			}
			return false
		}
		waitQuiet := func() {
			g.wcond = func() bool { return !othersRunnable() }
			x.block(g, wCond, "advance")
		}
		st := x.advancing[g]
		if st == nil {
			st = &advState{target: Add(x.now, args[0].(*Term))}
			x.advancing[g] = st
		}
		if othersRunnable() {
			waitQuiet()
			return nil
		}
		if t := x.pickDue(st.target); t != nil {
			t.active = false
			x.now = Ite(Slt(x.now, t.deadline), t.deadline, x.now)
			if t.fn != nil {
				t.fn()
			}
			if t.ch != nil {
				x.trySendCh(t.ch, x.timeValue(x.now))
			}
			waitQuiet()
			return nil
		}
		x.now = Ite(Slt(x.now, st.target), st.target, x.now)
		delete(x.advancing, g)
		return nil
	case "vFireTimer":
		ok := x.fireTimer()
		x.quiesceReq = true
		x.cur = nil
		return MkBool(ok)
	case "vPendingTimers":
		n := 0
		for _, t := range x.timers {
			if t.active {
				n++
			}
		}
		return MkBV(64, uint64(n))
	case "vGoroutines":
		n := 0
		for _, o := range x.gs {
			if !o.done && o != g && !o.daemon {
				n++
			}
		}
		return MkBV(64, uint64(n))
	case "vGoroutineMark":
		n := 0
		for _, o := range x.gs {
			if !o.done {
				n++
			}
		}
		x.gMark = n
		return nil
	case "vGoroutinesSinceMark":
		n := 0
		for _, o := range x.gs {
			if !o.done {
				n++
			}
		}
		return MkBV(64, uint64(int64(n-x.gMark)))
	case "vDaemon":
		g.daemon = true
		return nil
	case "vStallAfter":
		k := x.concInt(args[0], "stall point")
		g.stallAfter = k
		g.syncOps = 0
		g.stalled = k == 0
		return nil
	case "vStallRelease":
		for _, o := range x.gs {
			o.stalled = false
			o.stallAfter = -1
		}
		x.stallFunc = ""
		x.stallFuncG = nil
		return nil
	case "vStallFunc":
		// vStallFunc(name, k): see noteSync; vStallFunc("", 0) releases
		name := x.strArg(args[0])
		x.stallFunc = name
		x.stallFuncK = x.concInt(args[1], "stall point")
		x.stallFuncN = 0
		if x.stallFuncG != nil {
			x.stallFuncG.stalled = false
			x.stallFuncG = nil
		}
		return nil
	case "vSetPreempt":
		x.preemptBudget = x.concInt(args[0], "preempt budget")
		return nil
	case "vSchedNondet":
		x.schedNondet = args[0].(*Term).IsTrue()
		return nil
	case "vMapOrderNondet":
		x.mapOrderND = args[0].(*Term).IsTrue()
		return nil
	case "vAllowIDCollisions":
		x.allowIDCollide = args[0].(*Term).IsTrue()
		return nil
	case "vConcreteRandomIDs":
		x.concRandom = args[0].(*Term).IsTrue()
		return nil
	case "vNote":
		x.notes = append(x.notes, x.strArg(args[0]))
		return nil
	case "vSymbolic":
		return TTrue
	case "vIsConcreteInt":
		return MkBool(args[0].(*Term).IsConst())
	case "vBlockedSends":
		// number of goroutines (other than caller) blocked in a channel send
		n := 0
		for _, o := range x.gs {
			if o != g && !o.done && (o.wait == wSend) {
				n++
			}
		}
		return MkBV(64, uint64(n))
	}
	x.unsupported("unknown vrt function %s", fn.Name())
	return nil
}

type advState struct{ target *Term }

// pickDue returns the earliest active timer with deadline <= target (forking
// on symbolic deadlines), or nil.
func (x *Exec) pickDue(target *Term) *Timer {
	var due []*Timer
	for _, t := range x.timers {
		if !t.active {
			continue
		}
		c := Sle(t.deadline, target)
		if c.IsConst() {
			if c.IsTrue() {
				due = append(due, t)
			}
			continue
		}
		if x.choose([]*Term{c, Not(c)}, "timerdue") == 0 {
			due = append(due, t)
		}
	}
	if len(due) == 0 {
		return nil
	}
	allConst := true
	for _, t := range due {
		if !t.deadline.IsConst() {
			allConst = false
		}
	}
	pick := due[0]
	if allConst {
		for _, t := range due {
			if sx(t.deadline.U, 64) < sx(pick.deadline.U, 64) {
				pick = t
			}
		}
		return pick
	}
	if len(due) > 1 {
		conds := make([]*Term, len(due))
		for i, t := range due {
			cs := []*Term{}
			for j, o := range due {
				if i == j {
					continue
				}
				if j < i {
					cs = append(cs, Slt(t.deadline, o.deadline))
				} else {
					cs = append(cs, Sle(t.deadline, o.deadline))
				}
			}
			conds[i] = And(cs...)
		}
		pick = due[x.choose(conds, "timer")]
	}
	return pick
}

// advance virtual time by d, firing every timer that becomes due (in order).
func (x *Exec) advance(d *Term) {
	target := Add(x.now, d)
	for {
		var due *Timer
		for _, t := range x.timers {
			if !t.active {
				continue
			}
			c := Sle(t.deadline, target)
			if c.IsConst() {
				if c.IsTrue() && (due == nil || (t.deadline.IsConst() && due.deadline.IsConst() && sx(t.deadline.U, 64) < sx(due.deadline.U, 64))) {
					due = t
				}
				continue
			}
			if x.choose([]*Term{c, Not(c)}, "timerdue") == 0 {
				due = t
				break
			}
		}
		if due == nil {
			break
		}
		due.active = false
		x.now = Ite(Slt(x.now, due.deadline), due.deadline, x.now)
		if due.fn != nil {
			due.fn()
		}
		if due.ch != nil {
			x.trySendCh(due.ch, x.timeValue(x.now))
		}
	}
	x.now = target
}

func (x *Exec) witness(m map[string]uint64) []WitnessEntry {
	var w []WitnessEntry
	for _, in := range x.inputs {
		if in.Env {
			continue
		}
		e := WitnessEntry{Name: in.Name, Kind: in.Kind}
		switch in.Kind {
		case "choice":
			e.Val = fmt.Sprint(in.Choice)
		case "str":
			bs := make([]byte, len(in.Terms))
			for i, t := range in.Terms {
				bs[i] = byte(m[t.Name])
			}
			e.Val = fmt.Sprintf("%x", bs)
		case "bool":
			e.Val = fmt.Sprint(m[in.Term.Name] != 0)
		case "i64":
			e.Val = fmt.Sprint(int64(m[in.Term.Name]))
		case "i32":
			e.Val = fmt.Sprint(int32(m[in.Term.Name]))
		default:
			e.Val = fmt.Sprint(m[in.Term.Name])
		}
		w = append(w, e)
	}
	return w
}

// report records a violation at the current pc; c is the failed condition
// (nil for panics/deadlocks: the pc itself is the witness).
func (x *Exec) report(kind, label, msg string, c *Term) {
	neg := TTrue
	if c != nil {
		neg = Not(c)
	}
	x.res.Asserts++
	// outside every known region
	outs := []*Term{neg}
	for _, k := range x.known {
		outs = append(outs, Not(k.cond))
	}
	reported := false
	m, r := x.getModel(And(outs...))
	switch r {
	case "sat":
		x.res.Violations = append(x.res.Violations, &Violation{Label: label, Kind: kind, Msg: msg, Where: x.whereV(), Witness: x.witness(m), Trace: append([]int{}, x.trace...)})
		reported = true
	case "unknown":
		x.res.Unknown++
		x.res.Notes = append(x.res.Notes, "unknown verdict for "+label)
	}
	for _, k := range x.known {
		m, r := x.getModel(And(neg, k.cond))
		if r == "sat" {
			x.res.Violations = append(x.res.Violations, &Violation{Label: label, Kind: kind, Msg: msg, Where: x.whereV(), Witness: x.witness(m), Trace: append([]int{}, x.trace...), Known: k.id})
			reported = true
		} else if r == "unknown" {
			x.res.Unknown++
		}
	}
	if !reported && r == "unsat" {
		x.res.AssertUnsat++
	}
}

func (x *Exec) whereV() string {
	if x.panicWhere != "" {
		return x.panicWhere
	}
	return x.where()
}

func (x *Exec) assertion(label string, c *Term) {
	if c.IsTrue() {
		x.res.Asserts++
		x.res.AssertUnsat++
		return
	}
	x.report("assert", label, "assertion "+label+" can fail", c)
	if c.IsFalse() {
		x.end("ok", "assertion failed on every input of this path")
	}
	if x.checkSat(c) == "unsat" {
		x.end("ok", "assertion fails on whole path")
	}
	x.assume(c)
}

func (x *Exec) cover(label string) {
	if x.covers[label] {
		return
	}
	x.covers[label] = true
	x.res.Covers = append(x.res.Covers, label)
	if x.H.wantCoverWitness(label) {
		m, r := x.getModel(nil)
		if r == "sat" {
			if x.res.CoverWit == nil {
				x.res.CoverWit = map[string][]WitnessEntry{}
			}
			x.res.CoverWit[label] = x.witness(m)
		}
	}
}

func (x *Exec) onUncaughtPanic(g *G, p *PanicV) {
	x.cur = g
	x.panicWhere = p.Where
	x.report("panic", "no-panic", fmt.Sprintf("%s [goroutine %d %s] at %s", p.Msg, g.id, g.name, p.Where), nil)
	x.panicWhere = ""
	x.end("ok", "path ended by uncaught panic")
}

func (x *Exec) onDeadlock(main *G) {
	x.report("deadlock", "no-deadlock", "all goroutines blocked: "+x.describeBlocked(), nil)
	x.end("ok", "path ended by deadlock")
}

var coverSeen = struct {
	m map[string]bool
}{m: map[string]bool{}}

func (h *Harness) wantCoverWitness(label string) bool {
	h.mu.Lock()
	defer h.mu.Unlock()
	if h.coverDone == nil {
		h.coverDone = map[string]bool{}
	}
	if h.coverDone[label] {
		return false
	}
	h.coverDone[label] = true
	return true
}

// ---- path driver ----

func (h *Harness) runPath(ps *PathSolver, prefix []int) (res *PathResult) {
	res = &PathResult{}
	x := &Exec{P: h.P, H: h, sv: ps, prefix: prefix, globals: map[*ssa.Global]*Value{},
		covers: map[string]bool{}, natives: map[*Value]*Native{}, natTimers: map[*Value]*Timer{}, quiesced: map[*G]bool{}, encoded: map[*Str][]*Term{}, sleeping: map[*G]*bool{}, advancing: map[*G]*advState{}, funcsHit: map[*ssa.Function]int{}, res: res}
	x.now = MkBV(64, 1_000_000_000_000_000)
	x.preemptBudget = 0
	ps.begin()
	solver0 := ps.s.TimeNs
	defer func() {
		res.SolverS = float64(ps.s.TimeNs-solver0) / 1e9
		res.Steps = x.steps
		res.Trace = x.trace
		res.Notes = append(res.Notes, x.notes...)
		res.Funcs = map[string]int{}
		for f, n := range x.funcsHit {
			res.Funcs[f.String()] = n
		}
		if r := recover(); r != nil {
			if pe, ok := r.(pathEnd); ok {
				res.Status = pe.status
				res.Msg = pe.msg
				return
			}
			res.Status = "engine-error"
			res.Msg = fmt.Sprintf("%v @ %s\n%s", r, safeWhere(x), debug.Stack())
		}
	}()
	main := x.newG("main")
	x.cur = main
	// package initialisers of the packages under test
	for _, p := range h.P.initPkgs {
		initFn := p.Func("init")
		x.pushFrame(main, initFn, nil, nil, nil)
		x.runToCompletion(main)
	}
	fn := h.P.pkgs[h.PkgPath].Func(h.Name)
	if fn == nil {
		x.end("engine-error", "harness function not found: "+h.Name)
	}
	x.initDone = true
	x.steps = 0
	x.funcsHit = map[*ssa.Function]int{}
	x.pushFrame(main, fn, nil, nil, nil)
	main.done = false
	x.schedule(main)
	res.Status = "ok"
	return res
}

func safeWhere(x *Exec) (s string) {
	defer func() {
		if recover() != nil {
			s = "?"
		}
	}()
	return x.where()
}

// runToCompletion runs goroutine g alone until its stack is empty.
func (x *Exec) runToCompletion(g *G) {
	for len(g.frames) > 0 && !g.done {
		x.runG(g)
		if g.wait != wNone {
			x.end("engine-error", "init blocked")
		}
	}
	g.done = false
}

func sortedKeys(m map[string]int) []string {
	ks := make([]string, 0, len(m))
	for k := range m {
		ks = append(ks, k)
	}
	sort.Strings(ks)
	return ks
}

var _ = types.Typ
