package wamp

// C19: id generation / id acceptance / IsNewRecvID — pure bit-vector checks.

const vMaxID = uint64(1) << 53

func Harness_C19_IDGenNext() {
	g := &IDGen{next: vUint64("next")}
	pre := g.next
	id := g.Next()
	// zero value yields 1
	vAssert("zero-gives-1", vImplies(pre == 0, id == 1))
	// below 2^53: +1 ; at/above 2^53: wraps to 1
	vAssert("increments", vImplies(pre < vMaxID, uint64(id) == pre+1))
	vAssert("wraps-to-1", vImplies(pre == vMaxID, id == 1))
	vAssert("range", vImplies(pre <= vMaxID, vAnd(id >= 1, uint64(id) <= vMaxID)))
	vAssert("state-follows", g.next == uint64(id))
	if pre == vMaxID {
		vCover("wrap-reached")
	}
	if pre == 0 {
		vCover("zero-reached")
	}
}

func Harness_C19_GlobalID() {
	id := GlobalID()
	vAssert("globalid-range", vAnd(id >= 1, uint64(id) <= vMaxID))
	vCover("globalid")
}

func Harness_C19_IsNewRecvID() {
	last := ID(vUint64("last"))
	id := ID(vUint64("id"))
	s := &Session{lastRecvID: last}
	got := s.IsNewRecvID(id)
	// reference: window constant is 500 (deltaID)
	valid := vAnd(id >= 1, uint64(id) <= vMaxID)
	wrap := vAnd(id < last, (vMaxID-uint64(last))+uint64(id) < 500)
	want := vAnd(valid, vOr(last == 0, vOr(id > last, wrap)))
	vAssert("isnew-matches-reference", got == want)
	upd := s.UpdateLastRecvID(id)
	vAssert("update-returns-isnew", upd == got)
	vAssert("update-stores-iff-new", vIteBool(got, s.lastRecvID == id, s.lastRecvID == last))
	if got && id < last {
		vCover("wraparound-accepted")
	}
	if !got && id < last && id != 0 {
		vCover("old-id-rejected")
	}
}
