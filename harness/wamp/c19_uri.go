package wamp

// C19: URI validation and matching against char-level references.

func vLooseChar(c byte) bool {
	// Go regexp \s is [\t\n\f\r ]
	ws := vOr(c == '\t', vOr(c == '\n', vOr(c == '\f', vOr(c == '\r', c == ' '))))
	return !vOr(ws, vOr(c == '.', c == '#'))
}

func vStrictChar(c byte) bool {
	return vOr(vAnd(c >= '0', c <= '9'), vOr(vAnd(c >= 'a', c <= 'z'), c == '_'))
}

// reference validity: character class of every non-dot byte plus the
// empty-component rule of the purpose
func vRefValidURI(s string, strict bool, match string) bool {
	n := len(s)
	ok := true
	for i := 0; i < n; i++ {
		c := s[i]
		good := vLooseChar(c)
		if strict {
			good = vStrictChar(c)
		}
		ok = vAnd(ok, vOr(c == '.', good))
	}
	if match == MatchWildcard {
		return ok // any component may be empty
	}
	// no empty component except (for prefix) the last one
	if n > 0 {
		ok = vAnd(ok, s[0] != '.')
	}
	for i := 0; i+1 < n; i++ {
		ok = vAnd(ok, !vAnd(s[i] == '.', s[i+1] == '.'))
	}
	if match == MatchPrefix {
		return ok
	}
	// exact use: non-empty, and the last component is not empty
	if n == 0 {
		return false
	}
	return vAnd(ok, s[n-1] != '.')
}

func vHarnessValidURI(maxLen int) {
	s := vString("uri", maxLen)
	strict := vBool("strict")
	matches := []string{"", MatchExact, MatchPrefix, MatchWildcard, "bogus"}
	mi := vChoice("match", 5)
	match := matches[mi]
	// the verdict does not depend on what was checked before (a process
	// checks the same string for several purposes, under either rule)
	switch vChoice("earlier-check-of-the-same-string", 3) {
	case 1:
		URI(s).ValidURI(!strict, match)
	case 2:
		URI(s).ValidURI(strict, matches[(mi+1)%5])
	}
	got := URI(s).ValidURI(strict, match)
	want := vRefValidURI(s, strict, match)
	vAssert("validuri-matches-reference", got == want)
	if got {
		vCover("valid-reached")
	} else {
		vCover("invalid-reached")
	}
}

func Harness_C19_ValidURI_5() { vHarnessValidURI(5) }
func Harness_C19_ValidURI_8() { vHarnessValidURI(8) }

func Harness_C19_PrefixMatch() {
	u := vString("uri", 4)
	p := vString("prefix", 4)
	got := URI(u).PrefixMatch(URI(p))
	want := len(p) <= len(u)
	if want {
		for i := 0; i < len(p); i++ {
			want = vAnd(want, u[i] == p[i])
		}
	}
	vAssert("prefixmatch-iff-starts-with", got == want)
	if got && len(p) > 0 {
		vCover("prefix-matched")
	}
}

// reference split (forks on every symbolic byte, like the code under test)
func vSplitDots(s string) []string {
	var parts []string
	start := 0
	for i := 0; i < len(s); i++ {
		if s[i] == '.' {
			parts = append(parts, s[start:i])
			start = i + 1
		}
	}
	return append(parts, s[start:])
}

func vHarnessWildcard(maxLen int) {
	u := vString("uri", maxLen)
	w := vString("pattern", maxLen)
	got := URI(u).WildcardMatch(URI(w))
	up, wp := vSplitDots(u), vSplitDots(w)
	want := len(up) == len(wp)
	if want {
		for i := range wp {
			if len(wp[i]) == 0 {
				continue
			}
			want = vAnd(want, up[i] == wp[i])
		}
	}
	vAssert("wildcardmatch-iff-same-components-or-empty", got == want)
	if got && len(wp) > 1 {
		vCover("wildcard-matched")
	}
}

func Harness_C19_WildcardMatch_3() { vHarnessWildcard(3) }
func Harness_C19_WildcardMatch_4() { vHarnessWildcard(4) }

// ids read from messages: accepted only within [1, 2^53]
func Harness_C19_AsID() {
	var v any
	var exact bool     // integer carrier: acceptance is exactly the range test
	var asInt int64
	var inRange bool
	switch vChoice("carrier", 8) {
	case 0:
		x := vInt64("v")
		v, exact, asInt, inRange = x, true, x, vAnd(x >= 1, x <= 1<<53)
	case 1:
		x := vUint64("v")
		v, exact, asInt, inRange = x, true, int64(x), vAnd(x >= 1, x <= 1<<53)
	case 2:
		x := ID(vUint64("v"))
		v, exact, asInt, inRange = x, true, int64(x), vAnd(x >= 1, x <= 1<<53)
	case 3:
		x := int(vInt64("v"))
		v, exact, asInt, inRange = x, true, int64(x), vAnd(x >= 1, x <= 1<<53)
	case 4:
		x := vInt32("v")
		v, exact, asInt, inRange = x, true, int64(x), x >= 1
	case 5:
		x := vUint32("v")
		v, exact, asInt, inRange = x, true, int64(x), x >= 1
	case 6:
		v = vFloat64("v")
	case 7:
		switch vChoice("other", 4) {
		case 0:
			v = nil
		case 1:
			v = vString("s", 2)
		case 2:
			v = vBool("b")
		case 3:
			v = List{vInt64("l")}
		}
		id, ok := AsID(v)
		vAssert("non-numeric-rejected", !ok && id == 0)
		return
	}
	id, ok := AsID(v)
	vAssert("accepted-id-in-range", vImplies(ok, vAnd(id >= 1, uint64(id) <= 1<<53)))
	vAssert("rejected-gives-zero", vImplies(!ok, id == 0))
	if exact {
		vAssert("accepted-iff-in-range", ok == inRange)
		vAssert("value-preserved", vImplies(ok, int64(id) == asInt))
	} else {
		f := v.(float64)
		// a float is accepted iff its truncation is in range (NaN, infinities and huge values are not)
		vAssert("float-in-range-accepted", vImplies(vAnd(f >= 1, f <= 9007199254740992), ok))
		vAssert("float-out-of-range-rejected", vImplies(vOr(f < 1, f > 9007199254740992), !ok))
		vAssert("float-nan-rejected", vImplies(f != f, !ok))
	}
	if ok {
		vCover("id-accepted")
	}
}
