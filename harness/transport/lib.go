package transport

import (
	"errors"
	"io"
	"net"
	"time"

	"github.com/gammazero/nexus/v3/wamp"
)

type vNopLog struct{}

func (vNopLog) Print(v ...any)                 {}
func (vNopLog) Println(v ...any)               {}
func (vNopLog) Printf(format string, v ...any) {}

// vConn is a scripted net.Conn: Read serves the input script (then EOF, or
// blocks until closed when hold is set), Write appends to the output log.
type vConn struct {
	in       []byte
	pos      int
	out      []byte
	closed   bool
	nClose   int
	hold     bool
	closedCh chan struct{}
	bigWrites   []int
	failWriteAt int // fail the n-th Write (1-based); 0 = never
	nWrite   int
	// blockWrites: like a TCP connection whose peer does not read and whose send
	// buffer is full, Write blocks until the connection is closed or a write
	// deadline in the past is set
	blockWrites  bool
	writeExpired chan struct{}
	inWrite      bool
}

func vNewConn(in []byte, hold bool) *vConn {
	return &vConn{in: in, hold: hold, closedCh: make(chan struct{}), writeExpired: make(chan struct{})}
}

func (c *vConn) Read(p []byte) (int, error) {
	if c.closed {
		return 0, errors.New("use of closed connection")
	}
	if c.pos >= len(c.in) {
		if c.hold {
			<-c.closedCh
			return 0, errors.New("use of closed connection")
		}
		return 0, io.EOF
	}
	n := copy(p, c.in[c.pos:])
	c.pos += n
	return n, nil
}

func (c *vConn) Write(p []byte) (int, error) {
	if c.closed {
		return 0, errors.New("use of closed connection")
	}
	if c.blockWrites {
		c.inWrite = true
		select {
		case <-c.closedCh:
			return 0, errors.New("use of closed connection")
		case <-c.writeExpired:
			return 0, errors.New("i/o timeout")
		}
	}
	c.nWrite++
	if c.failWriteAt != 0 && c.nWrite == c.failWriteAt {
		return 0, errors.New("write failed")
	}
	if len(p) > 8192 {
		// very large bodies: only the length is recorded
		c.bigWrites = append(c.bigWrites, len(p))
		return len(p), nil
	}
	c.out = append(c.out, p...)
	return len(p), nil
}

func (c *vConn) Close() error {
	c.nClose++
	if !c.closed {
		c.closed = true
		close(c.closedCh)
	}
	return nil
}
func (c *vConn) LocalAddr() net.Addr                { return nil }
func (c *vConn) RemoteAddr() net.Addr               { return nil }
func (c *vConn) SetDeadline(t time.Time) error      { return nil }
func (c *vConn) SetReadDeadline(t time.Time) error  { return nil }
func (c *vConn) SetWriteDeadline(t time.Time) error {
	// pending and future writes fail once the deadline has passed
	if c.writeExpired == nil || t.IsZero() {
		return nil
	}
	expire := func() {
		select {
		case <-c.writeExpired:
		default:
			close(c.writeExpired)
		}
	}
	if d := time.Until(t); d <= 0 {
		expire()
	} else {
		time.AfterFunc(d, expire)
	}
	return nil
}

// vSer is a stub serializer: Deserialize records the payload it was given and
// returns a message (or an error); Serialize returns a body of scripted length.
type vSer struct {
	payloads [][]byte
	failDeser map[int]bool
	sizes    map[wamp.ID]int // message request id -> serialized length (-1: error)
}

func (s *vSer) Serialize(m wamp.Message) ([]byte, error) {
	p := m.(*wamp.Publish)
	n := s.sizes[p.Request]
	if n < 0 {
		return nil, errors.New("cannot serialize")
	}
	b := make([]byte, n)
	if n <= 8192 {
		for i := range b {
			b[i] = byte(p.Request) // body identifies the message
		}
	}
	return b, nil
}

func (s *vSer) Deserialize(b []byte) (wamp.Message, error) {
	i := len(s.payloads)
	s.payloads = append(s.payloads, append([]byte{}, b...))
	if s.failDeser[i] {
		return nil, errors.New("cannot deserialize")
	}
	return &wamp.Publish{Request: wamp.ID(i + 1)}, nil
}
func (s *vSer) SerializeDataItem(item any) ([]byte, error)   { return nil, errors.New("n/a") }
func (s *vSer) DeserializeDataItem(b []byte, v any) error     { return errors.New("n/a") }
