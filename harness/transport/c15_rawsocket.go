package transport

import (
	"time"

	"github.com/gammazero/nexus/v3/wamp"
)

// C15 / C04: rawsocket length arithmetic, handshake and framing.

func Harness_C15_LengthCodec() {
	// 24-bit length round trip
	n := vInt("n")
	vAssume(vAnd(n >= 0, n < 1<<24))
	b := intToBytes(n)
	vAssert("bytesToInt-inverts-intToBytes", bytesToInt(b[:]) == n)
	// length byte table
	lb := vByte("lenbyte")
	vAssume(lb <= 15)
	l := byteToLength(lb)
	vAssert("byteToLength-is-2^(9+b)", l == 512<<lb)
	// fitRecvLimit: least b whose length covers the limit, 15 otherwise
	x := vInt("recvLimit")
	f := fitRecvLimit(x)
	vAssert("fit-in-range", f <= 15)
	vAssert("fit-covers", vImplies(vAnd(x > 0, x <= 1<<24), byteToLength(f) >= x))
	vAssert("fit-minimal", vImplies(vAnd(x > 0, f > 0), byteToLength(f-1) < x))
	vAssert("fit-default", vImplies(vOr(x <= 0, x > 1<<24), f == 15))
	vCover("codec-checked")
}

// the largest limit a peer can announce (length byte 0xf = 2^24): a message
// the real sendHandler admits must be framed with its true length
func Harness_C15_SendLimitBoundary() {
	sendLimit := byteToLength(15)
	ser := &vSer{sizes: map[wamp.ID]int{}}
	conn := vNewConn(nil, true)
	rs := newRawSocketPeer(conn, ser, vNopLog{}, sendLimit, 512, 4)
	n := []int{1<<24 - 1, 1 << 24, 1<<24 + 1}[vChoice("size", 3)]
	ser.sizes[1] = n
	rs.Send() <- &wamp.Publish{Request: 1}
	vQuiesce()
	if len(conn.bigWrites) == 0 {
		vAssert("dropped-as-a-whole", len(conn.out) == 0)
		vCover("too-large-dropped")
	} else {
		vAssert("header-then-body", len(conn.out) == 4 && len(conn.bigWrites) == 1)
		if len(conn.out) == 4 {
			vAssert("header-carries-the-true-length", conn.out[0] == 0 && bytesToInt(conn.out[1:4]) == conn.bigWrites[0] && conn.bigWrites[0] == n)
		}
		vCover("large-message-framed")
	}
	rs.Close()
}

func Harness_C15_ServerHandshake() {
	in := vBytes("hs", 4)
	limChoice := []int{0, 1, 512, 513, 4096, 1 << 24, 1<<24 + 1}
	recvLimit := limChoice[vChoice("recvLimit", len(limChoice))]
	conn := vNewConn(in, false)
	peer, err := serverHandshake(conn, vNopLog{}, recvLimit, 4)
	ser := in[1] & 0xf
	switch {
	case in[0] != magic:
		vAssert("no-magic-fails-silently", err != nil && peer == nil && len(conn.out) == 0)
	case in[2] != 0 || in[3] != 0:
		vAssert("reserved-bits-error-3", err != nil && peer == nil && len(conn.out) == 4 && conn.out[0] == magic && conn.out[1] == 0x30 && conn.out[2] == 0 && conn.out[3] == 0)
		vCover("reserved-bits")
	case ser == 0:
		vAssert("serializer-0-fails", err != nil && peer == nil)
	case ser > 3:
		vAssert("unknown-serializer-error-1", err != nil && peer == nil && len(conn.out) == 4 && conn.out[1] == 0x10)
		vCover("unknown-serializer")
	default:
		vAssert("handshake-ok", err == nil && peer != nil && len(conn.out) >= 4)
		if peer != nil {
			fit := fitRecvLimit(recvLimit)
			vAssert("reply-echoes-serializer-with-own-limit", conn.out[0] == magic && conn.out[1] == fit<<4|ser && conn.out[2] == 0 && conn.out[3] == 0)
			vAssert("limits-agreed", peer.sendLimit == 512<<(in[1]>>4) && peer.recvLimit == 512<<fit)
			vCover("handshake-ok")
			peer.Close()
		}
	}
}

func Harness_C15_ClientHandshake() {
	in := vBytes("reply", 4)
	protocol := byte(1 + vChoice("protocol", 3))
	conn := vNewConn(in, false)
	peer, err := clientHandshake(conn, vNopLog{}, protocol, 600)
	vAssert("request-bytes", len(conn.out) >= 4 && conn.out[0] == magic && conn.out[1] == 1<<4|protocol && conn.out[2] == 0 && conn.out[3] == 0)
	ok := in[0] == magic && in[1]&0xf == protocol
	vAssert("accepted-iff-magic-and-same-serializer", (err == nil && peer != nil) == ok)
	if peer != nil {
		vAssert("client-limits", peer.sendLimit == 512<<(in[1]>>4) && peer.recvLimit == 1024)
		vCover("client-handshake-ok")
		peer.Close()
	}
}

// frames received from the network
func Harness_C15_RecvFrames() {
	const recvLimit = 512
	ser := &vSer{failDeser: map[int]bool{}}
	var in []byte
	type frame struct {
		typ    byte
		length int
		full   bool
	}
	var frames []frame
	lens := []int{0, 1, 3, 512, 513}
	nFrames := 2
	for k := 0; k < nFrames; k++ {
		h0 := vByte("frame.header0")
		l := lens[vChoice("frame.len", len(lens))]
		lb := intToBytes(l)
		in = append(in, h0, lb[0], lb[1], lb[2])
		full := vBool("frame.complete")
		n := l
		if !full && l > 0 {
			n = l - 1 // truncated payload, then EOF
		}
		for i := 0; i < n; i++ {
			in = append(in, byte(k*16+i%16+1))
		}
		frames = append(frames, frame{h0 & 7, l, full || l == 0})
		if vBool("deser.fails") {
			ser.failDeser[k] = true
		}
		if n != l {
			break // a truncated frame is the end of the stream
		}
	}
	conn := vNewConn(in, false)
	rs := newRawSocketPeer(conn, ser, vNopLog{}, 512, recvLimit, 4)
	var got []wamp.Message
	for m := range rs.Recv() {
		vAssert("never-a-nil-message", m != nil)
		got = append(got, m)
	}
	// reference
	wantMsgs, wantDeser := 0, 0
	var wantOut []byte
	off := 0
	for _, f := range frames {
		start := off + 4
		if f.length > recvLimit {
			break // connection ends
		}
		if f.typ > 2 {
			break // reserved frame type ends this connection
		}
		if !f.full {
			if f.typ == 1 {
				// a PING whose payload is cut short: the header and whatever
				// payload arrived may already have been echoed
				wantOut = append(wantOut, 2, in[off+1], in[off+2], in[off+3])
				wantOut = append(wantOut, in[start:]...)
			}
			break // truncated
		}
		switch f.typ {
		case 0:
			// exactly this frame's payload reaches the deserializer
			if wantDeser < len(ser.payloads) {
				p := ser.payloads[wantDeser]
				same := len(p) == f.length
				for i := 0; same && i < len(p); i++ {
					same = p[i] == in[start+i]
				}
				vAssert("deserializer-gets-exactly-the-payload", same)
			}
			if !ser.failDeser[wantDeser] {
				wantMsgs++
			}
			wantDeser++
		case 1:
			wantOut = append(wantOut, 2, in[off+1], in[off+2], in[off+3])
			wantOut = append(wantOut, in[start:start+f.length]...)
		case 2:
		}
		off = start + f.length
	}
	vAssert("one-deserialize-per-wamp-frame", len(ser.payloads) == wantDeser)
	vAssert("delivered-messages", len(got) == wantMsgs)
	same := len(conn.out) == len(wantOut)
	for i := 0; same && i < len(wantOut); i++ {
		same = conn.out[i] == wantOut[i]
	}
	vAssert("only-pongs-written-with-same-payload", same)
	if len(wantOut) > 0 {
		vCover("ping-answered")
	}
	if wantMsgs == 2 {
		vCover("two-messages")
	}
	rs.Close()
	vCover("recv-done")
}

// messages sent to the network
func Harness_C15_SendFrames() {
	const sendLimit = 512
	ser := &vSer{sizes: map[wamp.ID]int{}}
	conn := vNewConn(nil, true)
	rs := newRawSocketPeer(conn, ser, vNopLog{}, sendLimit, 512, 4)
	sizes := []int{-1, 0, 1, 512, 513}
	var want []byte
	for k := 1; k <= 3; k++ {
		n := sizes[vChoice("size", len(sizes))]
		ser.sizes[wamp.ID(k)] = n
		rs.Send() <- &wamp.Publish{Request: wamp.ID(k)}
		if n >= 0 && n <= sendLimit {
			lb := intToBytes(n)
			want = append(want, 0, lb[0], lb[1], lb[2])
			for i := 0; i < n; i++ {
				want = append(want, byte(k))
			}
		}
	}
	vQuiesce()
	same := len(conn.out) == len(want)
	for i := 0; same && i < len(want); i++ {
		same = conn.out[i] == want[i]
	}
	vAssert("stream-is-exactly-the-admitted-messages-in-order", same)
	rs.Close()
	vAssert("close-closes-connection", conn.closed)
	vCover("send-done")
}

// A network peer whose remote end has stopped reading: the transport's Write
// blocks (full send buffer). Close of the peer - which the router calls when
// the session ends or the router shuts down - must still return.
func Harness_C07_RawsocketCloseWithBlockedWriter() {
	ser := &vSer{sizes: map[wamp.ID]int{1: 16, 2: 16}}
	conn := vNewConn(nil, true)
	conn.blockWrites = true
	vGoroutineMark()
	rs := newRawSocketPeer(conn, ser, vNopLog{}, 512, 512, 4)
	n := vChoice("queued", 3)
	for k := 1; k <= n; k++ {
		rs.Send() <- &wamp.Publish{Request: wamp.ID(k)}
	}
	vQuiesce()
	if n > 0 {
		vAssert("writer-is-stuck-in-write", conn.inWrite)
	}
	done := make(chan struct{})
	go func() {
		rs.Close()
		close(done)
	}()
	vQuiesce()
	vAdvance(int64(10 * time.Second))
	vQuiesce()
	select {
	case <-done:
	default:
		vAssert("close-returns-although-the-remote-end-does-not-read", false)
		return
	}
	vAssert("connection-closed", conn.closed)
	_, ok := <-rs.Recv()
	vAssert("recv-channel-closed", !ok)
	vAssert("no-goroutine-left", vGoroutinesSinceMark() <= 0)
	vCover("blocked-writer-close-done")
}

// C06: the router closes a peer while a message of the client is in the
// hand-over to a handler that has gone (shutdown: the handler exits first, the
// peers are closed last). Close returns and the reader goroutine ends.
func Harness_C06_RawsocketCloseWithUnreadMessage() {
	ser := &vSer{failDeser: map[int]bool{}}
	var in []byte
	n := 1 + vChoice("frames-nobody-reads", 2)
	for k := 0; k < n; k++ {
		in = append(in, 0, 0, 0, 2, byte(k+1), byte(k+1))
	}
	conn := vNewConn(in, true)
	vGoroutineMark()
	rs := newRawSocketPeer(conn, ser, vNopLog{}, 512, 512, 4)
	vQuiesce()
	vAssert("first-message-deserialized-and-waiting", len(ser.payloads) == 1)
	done := make(chan struct{})
	go func() {
		rs.Close()
		close(done)
	}()
	vQuiesce()
	vAdvance(int64(10 * time.Second))
	vQuiesce()
	select {
	case <-done:
	default:
		vAssert("close-returns", false)
		return
	}
	vAssert("connection-closed", conn.closed)
	vAssert("reader-goroutine-gone", vGoroutinesSinceMark() <= 0)
	vCover("unread-message-close-done")
}
