package transport

import (
	"errors"
	"time"

	"github.com/gammazero/nexus/v3/wamp"
)

// C15: websocket peer control flow over a scripted WebsocketConnection (the
// gorilla connection itself is not encoded).

type vWSStep struct {
	kind int // 0 data ok, 1 data that does not deserialize, 2 close message type, 3 read error, 4 ping control frame
	typ  int
}

type vWSWrite struct {
	typ  int
	n    int
	tag  byte
	text string
}

type vWSConn struct {
	script      []vWSStep
	pos         int
	hold        bool
	closed      bool
	nClose      int
	closedCh    chan struct{}
	writes      []vWSWrite
	ctrl        []int
	failWriteAt int
	nWrite      int
	ping        func(string) error
	pong        func(string) error
	blockWrites bool // WriteMessage blocks until the connection is closed (remote end not reading)
	inWrite     bool
}

func vNewWSConn(script []vWSStep, hold bool) *vWSConn {
	return &vWSConn{script: script, hold: hold, closedCh: make(chan struct{})}
}

func (c *vWSConn) Close() error {
	c.nClose++
	if !c.closed {
		c.closed = true
		close(c.closedCh)
	}
	return nil
}

func (c *vWSConn) WriteControl(messageType int, data []byte, deadline time.Time) error {
	if c.closed {
		return errors.New("closed")
	}
	c.ctrl = append(c.ctrl, messageType)
	return nil
}

func (c *vWSConn) WriteMessage(messageType int, data []byte) error {
	if c.closed {
		return errors.New("closed")
	}
	if c.blockWrites {
		c.inWrite = true
		<-c.closedCh
		return errors.New("closed")
	}
	c.nWrite++
	if c.failWriteAt != 0 && c.nWrite == c.failWriteAt {
		return errors.New("write failed")
	}
	w := vWSWrite{typ: messageType, n: len(data)}
	if messageType == 9 || messageType == 10 {
		w.text = string(data)
	} else if len(data) > 0 {
		w.tag = data[0]
	}
	c.writes = append(c.writes, w)
	return nil
}

func (c *vWSConn) ReadMessage() (int, []byte, error) {
	for {
		if c.closed {
			return -1, nil, errors.New("use of closed connection")
		}
		if c.pos >= len(c.script) {
			if c.hold {
				<-c.closedCh
				return -1, nil, errors.New("use of closed connection")
			}
			return -1, nil, errors.New("EOF")
		}
		st := c.script[c.pos]
		c.pos++
		switch st.kind {
		case 0, 1:
			return st.typ, []byte{byte(c.pos)}, nil
		case 2:
			return 8, nil, nil
		case 3:
			return -1, nil, errors.New("read error")
		case 4:
			// gorilla runs the ping handler from inside ReadMessage
			if c.ping != nil {
				_ = c.ping("p")
			}
		}
	}
}

func (c *vWSConn) SetPongHandler(h func(appData string) error) { c.pong = h }
func (c *vWSConn) SetPingHandler(h func(appData string) error) { c.ping = h }
func (c *vWSConn) Subprotocol() string                         { return "" }

// messages and control frames arriving from the network
func Harness_C15_WebsocketRecv() {
	payloadType := 1 + vChoice("payloadType", 2)
	ser := &vSer{failDeser: map[int]bool{}}
	var script []vWSStep
	nData := 0
	for k := 0; k < 3; k++ {
		kind := vChoice("step.kind", 5)
		script = append(script, vWSStep{kind: kind, typ: 1 + vChoice("step.msgtype", 2)})
		if kind == 1 {
			ser.failDeser[nData] = true
		}
		if kind <= 1 {
			nData++
		}
	}
	hold := vBool("hold-after-script")
	conn := vNewWSConn(script, hold)
	vGoroutineMark()
	p := NewWebsocketPeer(conn, ser, payloadType, vNopLog{}, 0, 4)
	// reference: what the router must see
	want, pings, wantDeser := 0, 0, 0
	terminated := false
	for _, st := range script {
		if st.kind == 2 || st.kind == 3 {
			terminated = true
			break
		}
		switch st.kind {
		case 0:
			want++
			wantDeser++
		case 1:
			wantDeser++
		case 4:
			pings++
		}
	}
	var got []wamp.Message
	if terminated || !hold {
		for m := range p.Recv() {
			vAssert("never-a-nil-message", m != nil)
			got = append(got, m)
		}
		vAssert("connection-closed-after-read-end", conn.nClose >= 1)
		vCover("remote-end")
	} else {
		for i := 0; i < want; i++ {
			m := <-p.Recv()
			vAssert("never-a-nil-message", m != nil)
			got = append(got, m)
		}
		vQuiesce()
		select {
		case m, ok := <-p.Recv():
			_, _ = m, ok
			vAssert("nothing-more-delivered", false)
		default:
		}
		vCover("held-open")
	}
	vAssert("delivered-exactly-the-decodable-messages", len(got) == want)
	// in order: the stub deserializer numbers the messages it produced
	last := wamp.ID(0)
	for _, m := range got {
		pm, ok := m.(*wamp.Publish)
		vAssert("message-from-deserializer", ok)
		if ok {
			vAssert("arrival-order", pm.Request > last)
			last = pm.Request
		}
	}
	vAssert("one-deserialize-per-data-frame", len(ser.payloads) == wantDeser)
	// only pongs may have been written, one per ping at most, same payload
	vAssert("at-most-one-pong-per-ping", len(conn.writes) <= pings)
	for _, w := range conn.writes {
		vAssert("pong-echoes-ping", w.typ == 10 && w.text == "p")
	}
	if pings > 0 && len(conn.writes) == pings {
		vCover("ping-answered")
	}
	p.Close()
	p.Close()
	vAssert("closed-by-close", conn.closed)
	_, ok := <-p.Recv()
	vAssert("recv-channel-closed", !ok)
	vAssert("no-goroutine-left", vGoroutinesSinceMark() <= 0)
	if !terminated && hold {
		n := 0
		for _, c := range conn.ctrl {
			if c == 8 {
				n++
			}
		}
		vAssert("one-close-frame-sent", n == 1 && len(conn.ctrl) == 1)
	}
	vCover("ws-recv-done")
}

// messages sent to the network
func Harness_C15_WebsocketSend() {
	payloadType := 1 + vChoice("payloadType", 2)
	ser := &vSer{sizes: map[wamp.ID]int{}}
	conn := vNewWSConn(nil, true)
	conn.failWriteAt = vChoice("failWriteAt", 4)
	keep := time.Duration(0)
	if vBool("keepalive-variant") {
		keep = time.Hour
	}
	vGoroutineMark()
	p := NewWebsocketPeer(conn, ser, payloadType, vNopLog{}, keep, 4)
	sizes := []int{-1, 0, 3}
	var want []vWSWrite
	nw := 0
	dead := false
	for k := 1; k <= 3; k++ {
		n := sizes[vChoice("size", len(sizes))]
		ser.sizes[wamp.ID(k)] = n
		p.Send() <- &wamp.Publish{Request: wamp.ID(k)}
		if n < 0 || dead {
			continue
		}
		nw++
		if conn.failWriteAt != 0 && nw == conn.failWriteAt {
			dead = true // the sender gives up at the first failed write
			continue
		}
		w := vWSWrite{typ: payloadType, n: n}
		if n > 0 {
			w.tag = byte(k)
		}
		want = append(want, w)
	}
	vQuiesce()
	same := len(conn.writes) == len(want)
	for i := 0; same && i < len(want); i++ {
		same = conn.writes[i] == want[i]
	}
	vAssert("frames-are-exactly-the-serializable-messages-in-order-with-negotiated-type", same)
	if dead {
		vCover("write-error")
	}
	p.Close()
	vAssert("close-closes-connection", conn.closed)
	_, ok := <-p.Recv()
	vAssert("recv-channel-closed", !ok)
	p.Close()
	vAssert("no-goroutine-left", vGoroutinesSinceMark() <= 0)
	vCover("ws-send-done")
}

// keep-alive: ping every interval, close after two unanswered pings
func Harness_C15_WebsocketKeepAlive() {
	ser := &vSer{sizes: map[wamp.ID]int{}}
	conn := vNewWSConn(nil, true)
	vGoroutineMark()
	p := NewWebsocketPeer(conn, ser, 2, vNopLog{}, time.Second, 4)
	vQuiesce()
	pending := 0
	wantPings := 0
	closedByKeepAlive := false
	for tick := 0; tick < 4; tick++ {
		vAdvance(int64(time.Second))
		vQuiesce()
		if pending >= 2 {
			closedByKeepAlive = true
			break
		}
		wantPings++
		pending++
		vAssert("ping-sent-each-interval", len(conn.writes) == wantPings)
		if vBool("peer-answers") && conn.pong != nil {
			_ = conn.pong("keepalive")
			pending = 0
		}
	}
	vQuiesce()
	for _, w := range conn.writes {
		vAssert("only-pings-written", w.typ == 9 && w.text == "keepalive")
	}
	vAssert("pings-counted", len(conn.writes) == wantPings)
	vAssert("closed-iff-two-pings-unanswered", conn.closed == closedByKeepAlive)
	if closedByKeepAlive {
		_, ok := <-p.Recv()
		vAssert("recv-channel-closed-after-keepalive-failure", !ok)
		vCover("keepalive-closed")
	} else {
		vCover("keepalive-alive")
	}
	p.Close()
	vAssert("closed", conn.closed)
	vAssert("no-goroutine-left", vGoroutinesSinceMark() <= 0)
}

// the websocket flavour of Harness_C07_RawsocketCloseWithBlockedWriter
func Harness_C07_WebsocketCloseWithBlockedWriter() {
	ser := &vSer{sizes: map[wamp.ID]int{1: 16, 2: 16}}
	conn := vNewWSConn(nil, true)
	conn.blockWrites = true
	keep := time.Duration(0)
	if vBool("keepalive-variant") {
		keep = time.Hour
	}
	vGoroutineMark()
	p := NewWebsocketPeer(conn, ser, 2, vNopLog{}, keep, 4)
	n := vChoice("queued", 3)
	for k := 1; k <= n; k++ {
		p.Send() <- &wamp.Publish{Request: wamp.ID(k)}
	}
	vQuiesce()
	if n > 0 {
		vAssert("writer-is-stuck-in-write", conn.inWrite)
	}
	done := make(chan struct{})
	go func() {
		p.Close()
		close(done)
	}()
	vQuiesce()
	vAdvance(int64(10 * time.Second))
	vQuiesce()
	select {
	case <-done:
	default:
		vAssert("close-returns-although-the-remote-end-does-not-read", false)
		return
	}
	vAssert("connection-closed", conn.closed)
	_, ok := <-p.Recv()
	vAssert("recv-channel-closed", !ok)
	vAssert("no-goroutine-left", vGoroutinesSinceMark() <= 0)
	vCover("ws-blocked-writer-close-done")
}

// the websocket flavour of Harness_C06_RawsocketCloseWithUnreadMessage
func Harness_C06_WebsocketCloseWithUnreadMessage() {
	ser := &vSer{failDeser: map[int]bool{}}
	n := 1 + vChoice("frames-nobody-reads", 2)
	var script []vWSStep
	for k := 0; k < n; k++ {
		script = append(script, vWSStep{kind: 0, typ: 2})
	}
	conn := vNewWSConn(script, true)
	keep := time.Duration(0)
	if vBool("keepalive-variant") {
		keep = time.Hour
	}
	vGoroutineMark()
	p := NewWebsocketPeer(conn, ser, 2, vNopLog{}, keep, 4)
	vQuiesce()
	vAssert("first-message-deserialized-and-waiting", len(ser.payloads) == 1)
	done := make(chan struct{})
	go func() {
		p.Close()
		close(done)
	}()
	vQuiesce()
	vAdvance(int64(10 * time.Second))
	vQuiesce()
	select {
	case <-done:
	default:
		vAssert("close-returns", false)
		return
	}
	vAssert("connection-closed", conn.closed)
	vAssert("reader-goroutine-gone", vGoroutinesSinceMark() <= 0)
	vCover("ws-unread-message-close-done")
}
