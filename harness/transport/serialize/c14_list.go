package serialize

import "github.com/gammazero/nexus/v3/wamp"

// C14 (message <-> list layer; the byte-level codec is not encodable).

// field kinds: i=ID, u=URI, d=Dict, l=List(omitempty), k=Dict(omitempty), s=string, t=MessageType
var vSigs = map[wamp.MessageType]string{
	wamp.HELLO: "ud", wamp.WELCOME: "id", wamp.ABORT: "du", wamp.CHALLENGE: "sd", wamp.AUTHENTICATE: "sd", wamp.GOODBYE: "du",
	wamp.ERROR: "tidulk", wamp.PUBLISH: "idulk", wamp.PUBLISHED: "ii", wamp.SUBSCRIBE: "idu", wamp.SUBSCRIBED: "ii",
	wamp.UNSUBSCRIBE: "ii", wamp.UNSUBSCRIBED: "i", wamp.EVENT: "iidlk", wamp.CALL: "idulk", wamp.CANCEL: "id", wamp.RESULT: "idlk",
	wamp.REGISTER: "idu", wamp.REGISTERED: "ii", wamp.UNREGISTER: "ii", wamp.UNREGISTERED: "i", wamp.INVOCATION: "iidlk",
	wamp.INTERRUPT: "id", wamp.YIELD: "idlk",
}

var vTypes = []wamp.MessageType{wamp.HELLO, wamp.WELCOME, wamp.ABORT, wamp.CHALLENGE, wamp.AUTHENTICATE, wamp.GOODBYE, wamp.ERROR,
	wamp.PUBLISH, wamp.PUBLISHED, wamp.SUBSCRIBE, wamp.SUBSCRIBED, wamp.UNSUBSCRIBE, wamp.UNSUBSCRIBED, wamp.EVENT, wamp.CALL,
	wamp.CANCEL, wamp.RESULT, wamp.REGISTER, wamp.REGISTERED, wamp.UNREGISTER, wamp.UNREGISTERED, wamp.INVOCATION, wamp.INTERRUPT, wamp.YIELD}

// deep equality of WAMP data-model values (depth <= 2)
func vValEq(a, b any) bool {
	switch av := a.(type) {
	case wamp.List:
		bv, ok := b.(wamp.List)
		if !ok || len(av) != len(bv) {
			return false
		}
		r := true
		for i := range av {
			r = vAnd(r, vValEq(av[i], bv[i]))
		}
		return r
	case wamp.Dict:
		bv, ok := b.(wamp.Dict)
		if !ok || len(av) != len(bv) {
			return false
		}
		r := true
		for k, v := range av {
			w, has := bv[k]
			if !has {
				return false
			}
			r = vAnd(r, vValEq(v, w))
		}
		return r
	}
	return a == b
}

func vPayloadList(name string) wamp.List {
	switch vChoice(name+".shape", 4) {
	case 0:
		return nil
	case 1:
		return wamp.List{}
	case 2:
		return wamp.List{vInt64(name + ".0")}
	}
	return wamp.List{vString(name+".s", 2), wamp.Dict{"n": vBool(name + ".b")}, wamp.List{vUint64(name + ".u")}}
}

func vPayloadDict(name string, allowEmpty bool) wamp.Dict {
	n := 3
	if !allowEmpty {
		n = 2
	}
	switch vChoice(name+".shape", n) {
	case 0:
		return wamp.Dict{"k": vInt64(name + ".k")}
	case 1:
		return wamp.Dict{"a": wamp.List{vBool(name + ".a")}, "b": vString(name+".b", 1)}
	}
	return wamp.Dict{}
}

// list -> message -> list round trip for every message type
func Harness_C14_ListRoundTrip() {
	mt := vTypes[vChoice("msgtype", len(vTypes))]
	sig := vSigs[mt]
	fields := wamp.List{}
	idVals := map[int]wamp.ID{}
	for i := 0; i < len(sig); i++ {
		nm := "f" + string(rune('0'+i))
		switch sig[i] {
		case 'i':
			// ids arrive as wamp.ID from in-process peers and as uint64 / int64
			// from the decoders; every value of the WAMP id range [0, 2^53]
			// must be accepted from any carrier
			v := vUint64(nm)
			switch vChoice(nm+".carrier", 3) {
			case 0:
				fields = append(fields, wamp.ID(v))
			case 1:
				vAssume(v <= 1<<53)
				fields = append(fields, v)
			case 2:
				vAssume(v <= 1<<53)
				fields = append(fields, int64(v))
			}
			idVals[i] = wamp.ID(v)
		case 'u':
			fields = append(fields, wamp.URI(vString(nm, 2)))
		case 's':
			fields = append(fields, vString(nm, 2))
		case 't':
			fields = append(fields, wamp.CALL)
		case 'd':
			fields = append(fields, vPayloadDict(nm, true))
		case 'l':
			fields = append(fields, vPayloadList(nm))
		case 'k':
			var d wamp.Dict
			if vChoice(nm+".present", 2) == 1 {
				d = vPayloadDict(nm, false)
			}
			fields = append(fields, d)
		}
	}
	in := append([]any{int(mt)}, fields...)
	msg, err := listToMsg(mt, in)
	vAssert("well-typed-list-accepted", err == nil && msg != nil)
	if msg == nil {
		return
	}
	vAssert("message-type", msg.MessageType() == mt)
	out := msgToList(msg)
	// expected: trailing empty omitempty fields dropped
	want := len(fields)
	for want > 0 {
		c := sig[want-1]
		if c == 'l' {
			if l, _ := fields[want-1].(wamp.List); len(l) == 0 {
				want--
				continue
			}
		}
		if c == 'k' {
			if d, _ := fields[want-1].(wamp.Dict); len(d) == 0 {
				want--
				continue
			}
		}
		break
	}
	vAssert("trailing-empty-arguments-omitted", len(out) == want+1)
	if len(out) != want+1 {
		return
	}
	code, ok := out[0].(int)
	vAssert("list-starts-with-code", ok && code == int(mt))
	for i := 0; i < want; i++ {
		a, b := fields[i], out[i+1]
		if sig[i] == 'l' {
			// an absent and an empty argument list are the same on the wire
			la, _ := a.(wamp.List)
			lb, _ := b.(wamp.List)
			if len(la) == 0 {
				vAssert("kwargs-keep-their-position", len(lb) == 0)
				vCover("kwargs-without-args")
				continue
			}
		}
		if sig[i] == 'i' {
			vAssert("id-field-round-trips-from-any-carrier", b == any(idVals[i]))
			continue
		}
		vAssert("field-round-trips", vValEq(a, b))
	}
	// and once more from the message side
	msg2, err2 := listToMsg(mt, out)
	vAssert("own-output-accepted", err2 == nil && msg2 != nil)
	if msg2 != nil {
		out2 := msgToList(msg2)
		vAssert("stable-second-round", len(out2) == len(out))
	}
	vCover("roundtrip-checked")
}

const vAnyKinds = 12

func vAnyDecoded(name string) any {
	switch vChoice(name+".type", vAnyKinds) {
	case 0:
		return nil
	case 1:
		return vBool(name)
	case 2:
		return vInt64(name)
	case 3:
		return vUint64(name)
	case 4:
		return vFloat64(name)
	case 5:
		return vString(name, 2)
	case 6:
		return vBytes(name, 1)
	case 7:
		return []any{vInt64(name)}
	case 8:
		return map[string]any{"k": vInt64(name)}
	case 9:
		return []any{}
	case 10:
		return map[string]any{}
	}
	return map[string]any{"k": []any{vString(name, 1)}}
}

// any decoded list of universe values: listToMsg never panics and yields an
// error or a message of the requested type
func Harness_C14_ArbitraryList() {
	mt := vTypes[vChoice("msgtype", len(vTypes))]
	sig := vSigs[mt]
	// list lengths: empty, one short, exact, one too long
	n := []int{0, len(sig) - 1, len(sig), len(sig) + 1}[vChoice("len", 4)]
	in := []any{uint64(mt)}
	// one position gets an arbitrary value, the others well-typed decoded values
	hostile := vChoice("hostile.pos", n+1)
	for i := 0; i < n; i++ {
		nm := "f" + string(rune('0'+i))
		if i == hostile {
			in = append(in, vAnyDecoded(nm))
			continue
		}
		c := byte('x')
		if i < len(sig) {
			c = sig[i]
		}
		switch c {
		case 'i', 't':
			in = append(in, vUint64(nm))
		case 'u', 's':
			in = append(in, vString(nm, 1))
		case 'd', 'k':
			in = append(in, map[string]any{"k": vInt64(nm)})
		case 'l':
			in = append(in, []any{vInt64(nm)})
		default:
			in = append(in, vInt64(nm))
		}
	}
	msg, err := listToMsg(mt, in)
	vAssert("error-or-message", (err != nil) != (msg != nil))
	if msg != nil {
		vAssert("message-of-requested-type", msg.MessageType() == mt)
		vCover("arbitrary-accepted")
	} else {
		vCover("arbitrary-rejected")
	}
	// unknown codes give an error, not a message
	if vChoice("also.badcode", 2) == 1 {
		bad := wamp.MessageType(vInt64("badcode"))
		known := false
		for _, t := range vTypes {
			known = vOr(known, bad == t)
		}
		vAssume(!known)
		m2, e2 := listToMsg(bad, in)
		vAssert("unknown-code-rejected", m2 == nil && e2 != nil)
	}
}
