package router

import "github.com/gammazero/nexus/v3/wamp"

// C05: whatever a session did and however it ends, nothing of it remains.

func vFindMsg[T wamp.Message](ms []wamp.Message) (T, int) {
	var zero T
	n := 0
	var found T = zero
	for _, m := range ms {
		if t, ok := m.(T); ok {
			if n == 0 {
				found = t
			}
			n++
		}
	}
	return found, n
}

// refsTo reports whether any routing table of the realm still mentions s.
func vRefsTo(rl *realm, id wamp.ID) bool {
	found := false
	for _, c := range rl.clients {
		if c.ID == id {
			found = true
		}
	}
	if _, ok := rl.testaments[id]; ok {
		found = true
	}
	b, d := rl.broker, rl.dealer
	for s := range b.sessionSubIDSet {
		if s.ID == id {
			found = true
		}
	}
	for _, sub := range b.subscriptions {
		for s := range sub.subscribers {
			if s.ID == id {
				found = true
			}
		}
	}
	for s := range d.calleeRegIDSet {
		if s.ID == id {
			found = true
		}
	}
	for _, reg := range d.registrations {
		for _, s := range reg.callees {
			if s.ID == id {
				found = true
			}
		}
	}
	for k, s := range d.calls {
		if s.ID == id || k.session == id {
			found = true
		}
	}
	for k, inv := range d.invocations {
		if k.session == id || inv.callee.ID == id || inv.callID.session == id {
			found = true
		}
	}
	for k, v := range d.invocationByCall {
		if k.session == id || v.session == id {
			found = true
		}
	}
	return found
}

func vCountClientState(rl *realm) int {
	n := len(rl.clients) + len(rl.testaments)
	n += len(rl.broker.sessionSubIDSet) + len(rl.broker.subscriptions) + len(rl.broker.topicSubscription) + len(rl.broker.pfxTopicSubscription) + len(rl.broker.wcTopicSubscription)
	n += len(rl.dealer.calls) + len(rl.dealer.invocations) + len(rl.dealer.invocationByCall)
	// registrations of the meta session remain; count only client ones
	for _, reg := range rl.dealer.registrations {
		for _, s := range reg.callees {
			if s.ID != metaID {
				n++
			}
		}
	}
	for s := range rl.dealer.calleeRegIDSet {
		if s.ID != metaID {
			n++
		}
	}
	return n
}

const (
	actSubscribe = iota
	actRegister
	actCallPending   // a calls b.proc, b does not answer
	actServePending  // b calls a.proc, a does not answer
	actRefusedCall   // a's CALL refused after routing started (disclose_me disallowed)
	actRefusedCall2  // progressive call to a callee without the feature
	actTestament
	actUnregisterWhileServing // b calls a.proc (pending), then a unregisters a.proc
	actSubscribeUnsubscribe
	actSubscribeHistory // a subscribes to a topic with configured event history
	actRefusedUnregister // a holds one registration and sends UNREGISTER / UNSUBSCRIBE for ids it does not hold
	actTestamentAck      // testament whose publication asks for an acknowledgement
	actCount
)

func vC05(nActs int, acts []int, ways int) {
	r := vNewRouter(&Config{RealmConfigs: []*RealmConfig{{URI: "realm1", AnonymousAuth: true, AllowDisclose: false, EnableMetaKill: true,
		TopicEventHistoryConfigs: []*TopicEventHistoryConfig{{Topic: "hist.topic", MatchPolicy: wamp.MatchExact, Limit: 2}}}}})
	base := vCountClientState(r.realms["realm1"]) // the configured history subscription stays for ever
	// a announces all client roles, or only the pub/sub ones (the router does
	// not tie requests to announced roles, so it may still register and call)
	var aHello wamp.Dict
	pubsubOnly := vBool("a.announces.pubsub.roles.only")
	aborted := false
	if pubsubOnly {
		aHello = wamp.Dict{"roles": wamp.Dict{"publisher": wamp.Dict{}, "subscriber": wamp.Dict{}}}
	}
	a := vAttach(r, "realm1", aHello, 64)
	// callee b lacks progressive_call_invocations on purpose
	bRoles := wamp.Dict{
		"subscriber": wamp.Dict{},
		"publisher":  wamp.Dict{},
		"caller":     wamp.Dict{"features": wamp.Dict{"call_canceling": true}},
		"callee":     wamp.Dict{"features": wamp.Dict{"call_canceling": true, "progressive_call_results": true}},
	}
	b := vAttach(r, "realm1", wamp.Dict{"roles": bRoles}, 64)
	vAssert("attached", a != nil && b != nil)
	rl := r.realms["realm1"]
	b.send(&wamp.Register{Request: 1, Procedure: "b.proc"})
	b.send(&wamp.Subscribe{Request: 2, Topic: "will.topic"})
	b.send(&wamp.Subscribe{Request: 3, Topic: "a.topic"})
	b.drain()

	did := map[int]bool{}
	var invAtB *wamp.Invocation
	for k := 0; k < nActs; k++ {
		if aborted {
			break
		}
		act := acts[vChoice("act", len(acts))]
		if did[act] {
			continue
		}
		did[act] = true
		switch act {
		case actSubscribe:
			a.send(&wamp.Subscribe{Request: 11, Topic: "a.topic"})
		case actRegister:
			a.send(&wamp.Register{Request: 12, Procedure: "a.proc"})
		case actCallPending:
			copts := wamp.Dict{"receive_progress": true}
			if vBool("pending-call-has-router-timeout") {
				copts["timeout"] = int64(60000)
			}
			a.send(&wamp.Call{Request: 13, Procedure: "b.proc", Options: copts})
			inv, n := vFindMsg[*wamp.Invocation](b.drain())
			vAssert("b-got-invocation", n == 1)
			invAtB = inv
		case actServePending:
			if !did[actRegister] {
				a.send(&wamp.Register{Request: 12, Procedure: "a.proc"})
				did[actRegister] = true
				a.drain()
			}
			sopts := wamp.Dict{}
			if vBool("served-call-has-router-timeout") {
				sopts["timeout"] = int64(60000)
			}
			b.send(&wamp.Call{Request: 14, Procedure: "a.proc", Options: sopts})
		case actRefusedCall:
			a.send(&wamp.Call{Request: 15, Procedure: "b.proc", Options: wamp.Dict{"disclose_me": true}})
		case actRefusedCall2:
			a.send(&wamp.Call{Request: 16, Procedure: "b.proc", Options: wamp.Dict{"progress": true}})
			if pubsubOnly {
				// a did not announce progressive call invocations: protocol
				// violation, the router aborts the session (a sixth way of ending)
				_, nab := vFindMsg[*wamp.Abort](a.drain())
				vAssert("protocol-violation-aborted", nab == 1)
				aborted = true
				vCover("aborted-for-protocol-violation")
			}
		case actTestament:
			a.send(&wamp.Call{Request: 17, Procedure: wamp.MetaProcSessionAddTestament, Arguments: wamp.List{"will.topic", wamp.List{"bye"}, wamp.Dict{}}})
		case actUnregisterWhileServing:
			if did[actRegister] || did[actServePending] {
				continue
			}
			did[actRegister], did[actServePending] = true, true
			a.send(&wamp.Register{Request: 12, Procedure: "a.proc"})
			rg, _ := vFindMsg[*wamp.Registered](a.drain())
			vAssert("a-registered", rg != nil)
			b.send(&wamp.Call{Request: 14, Procedure: "a.proc"})
			a.drain()
			if rg != nil {
				a.send(&wamp.Unregister{Request: 18, Registration: rg.Registration})
			}
			vCover("unregistered-while-serving")
		case actSubscribeUnsubscribe:
			if did[actSubscribe] {
				continue
			}
			a.send(&wamp.Subscribe{Request: 19, Topic: "tmp.topic"})
			sd, _ := vFindMsg[*wamp.Subscribed](a.drain())
			if sd != nil {
				a.send(&wamp.Unsubscribe{Request: 20, Subscription: sd.Subscription})
			}
		case actRefusedUnregister:
			if !did[actRegister] {
				a.send(&wamp.Register{Request: 12, Procedure: "a.proc"})
				did[actRegister] = true
				a.drain()
			}
			// ids nobody holds (ids in use are small sequence numbers; naming somebody
			// else's id is the business of the C01 / C18 harnesses)
			bogusReg, bogusSub := vUint64("bogus.registration"), vUint64("bogus.subscription")
			vAssume(vAnd(bogusReg >= 1000, bogusSub >= 1000))
			a.send(&wamp.Unregister{Request: 22, Registration: wamp.ID(bogusReg)})
			a.send(&wamp.Unsubscribe{Request: 23, Subscription: wamp.ID(bogusSub)})
		case actTestamentAck:
			a.send(&wamp.Call{Request: 24, Procedure: wamp.MetaProcSessionAddTestament, Arguments: wamp.List{"will.topic", wamp.List{"bye-ack"}, wamp.Dict{}},
				ArgumentsKw: wamp.Dict{"publish_options": wamp.Dict{"acknowledge": true}}})
		case actSubscribeHistory:
			a.send(&wamp.Subscribe{Request: 21, Topic: "hist.topic"})
			_, n := vFindMsg[*wamp.Subscribed](a.drain())
			vAssert("subscribed-to-history-topic", n == 1)
			vCover("history-topic-subscriber")
		}
		if !aborted {
			a.drain()
		}
	}
	// what b saw so far; if a was aborted, this already includes everything a's end caused
	bEarly := b.drain()
	if !aborted {
		bEarly = nil
	}

	// refused and failed calls leave nothing behind: the dealer tracks exactly
	// the calls that are still waiting for an answer
	pendingCalls := 0
	if did[actCallPending] {
		pendingCalls++
	}
	if did[actServePending] {
		pendingCalls++
	}
	if !aborted { // an aborted session has ended already: its calls are gone with it
		vAssert("only-pending-calls-are-tracked", len(rl.dealer.calls) == pendingCalls && len(rl.dealer.invocations) == pendingCalls && len(rl.dealer.invocationByCall) == pendingCalls)
	}

	// --- the session ends ---
	way := -1
	if !aborted {
		way = vChoice("way", ways)
	}
	switch way {
	case 0:
		a.send(&wamp.Goodbye{Reason: wamp.CloseRealm, Details: wamp.Dict{}})
	case 1:
		a.peer.Close() // transport lost
	case 2:
		b.send(&wamp.Call{Request: 20, Procedure: wamp.MetaProcSessionKill, Arguments: wamp.List{a.id}})
	case 3:
		a.send(&wamp.Welcome{ID: 1, Details: wamp.Dict{}}) // protocol violation
	case 4: // everybody but the caller is killed through the meta API
		b.send(&wamp.Call{Request: 20, Procedure: wamp.MetaProcSessionKillAll})
	case 5: // killed with the reason an operator would give before maintenance
		b.send(&wamp.Call{Request: 20, Procedure: wamp.MetaProcSessionKill, Arguments: wamp.List{a.id}, ArgumentsKw: wamp.Dict{"reason": string(wamp.CloseSystemShutdown), "message": "maintenance"}})
	}
	if !aborted {
		a.drain()
	}
	bm := append(bEarly, b.drain()...)

	vAssert("no-state-refers-to-ended-session", !vRefsTo(rl, a.id))
	if did[actServePending] {
		_, nerr := vFindMsg[*wamp.Error](bm)
		vAssert("served-call-answered-with-error-once", nerr == 1)
		vCover("served-call-cancelled")
	}
	if did[actTestament] && way != 4 {
		nWill := 0
		for _, m := range bm {
			if e, ok := m.(*wamp.Event); ok && len(e.Arguments) == 1 && e.Arguments[0] == any("bye") {
				nWill++
			}
		}
		vAssert("testament-published-exactly-once", nWill == 1)
		vCover("testament-published")
	}
	// nothing is routed to the ended session any more
	b.send(&wamp.Publish{Request: 29, Topic: "hist.topic"})
	b.send(&wamp.Publish{Request: 30, Topic: "a.topic", Options: wamp.Dict{"acknowledge": true, "exclude_me": false}})
	b.send(&wamp.Call{Request: 31, Procedure: "a.proc"})
	after := b.drain()
	nEv := 0
	for _, m := range after {
		if _, ok := m.(*wamp.Event); ok {
			nEv++
		}
	}
	vAssert("publication-reaches-only-remaining-subscriber", nEv == 1)
	e, nerr := vFindMsg[*wamp.Error](after)
	vAssert("ended-sessions-procedure-is-gone", nerr == 1 && e != nil && e.Error == wamp.ErrNoSuchProcedure && e.Request == 31)
	if invAtB != nil {
		// progressive result for the abandoned call is interrupted
		b.send(&wamp.Yield{Request: invAtB.Request, Options: wamp.Dict{"progress": true}})
		_, nint := vFindMsg[*wamp.Interrupt](b.drain())
		vAssert("abandoned-call-progress-interrupted", nint == 1)
		vCover("abandoned-call-interrupted")
	}
	// --- the other session leaves as well: the realm is empty again ---
	b.send(&wamp.Goodbye{Reason: wamp.CloseRealm, Details: wamp.Dict{}})
	b.drain()
	vAssert("realm-holds-no-client-state", vCountClientState(rl) == base)
	vCover("cleanup-checked")
}

var vC05Acts = []int{actSubscribe, actRegister, actCallPending, actServePending, actRefusedCall, actRefusedCall2, actTestament, actUnregisterWhileServing, actSubscribeUnsubscribe, actSubscribeHistory, actRefusedUnregister, actTestamentAck}

func Harness_C05_Leave_1() { vC05(1, vC05Acts, 6) }
func Harness_C05_Leave_2() { vC05(2, vC05Acts, 6) }
func Harness_C05_Leave_3() { vC05(3, vC05Acts, 6) }
