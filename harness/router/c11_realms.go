package router

import "github.com/gammazero/nexus/v3/wamp"

// C11: nothing crosses realm boundaries. Realm B holds state; a session of
// realm A aims every kind of request at B's URIs and ids.

func vRealmSizes(rl *realm) [6]int {
	return [6]int{len(rl.clients), len(rl.broker.subscriptions), len(rl.dealer.registrations), len(rl.dealer.calls), len(rl.dealer.invocations), len(rl.testaments)}
}

func vC11(nOps int, template bool) {
	cfgB := &RealmConfig{URI: "realm.b", AnonymousAuth: true, EnableMetaKill: true, AllowDisclose: true}
	cfg := &Config{RealmConfigs: []*RealmConfig{cfgB}}
	if template {
		cfg.RealmTemplate = &RealmConfig{AnonymousAuth: true, EnableMetaKill: true, AllowDisclose: true}
	} else {
		cfg.RealmConfigs = append(cfg.RealmConfigs, &RealmConfig{URI: "realm.a", AnonymousAuth: true, EnableMetaKill: true, AllowDisclose: true})
	}
	r := vNewRouter(cfg)
	b1 := vAttach(r, "realm.b", nil, 64)
	b2 := vAttach(r, "realm.b", nil, 64)
	a1 := vAttach(r, "realm.a", nil, 64)
	vAssert("attached", b1 != nil && b2 != nil && a1 != nil)
	rb := r.realms["realm.b"]
	vAssert("realms-distinct", r.realms["realm.a"] != nil && r.realms["realm.a"] != rb)

	// state in B: subscription, registration, pending call b1 -> b2, testament, meta observer
	b1.send(&wamp.Subscribe{Request: 1, Topic: "x.topic"})
	b1.send(&wamp.Subscribe{Request: 2, Topic: "wamp.", Options: wamp.Dict{"match": "prefix"}})
	b2.send(&wamp.Register{Request: 3, Procedure: "x.proc"})
	b2m := b2.drain()
	b1m := b1.drain()
	subB, _ := vFindMsg[*wamp.Subscribed](b1m)
	regB, _ := vFindMsg[*wamp.Registered](b2m)
	vAssert("b-setup", subB != nil && regB != nil)
	b1.send(&wamp.Call{Request: 4, Procedure: "x.proc"})
	b1.send(&wamp.Call{Request: 5, Procedure: wamp.MetaProcSessionAddTestament, Arguments: wamp.List{"x.topic", wamp.List{"will"}, wamp.Dict{}}})
	b1.drain()
	invB, _ := vFindMsg[*wamp.Invocation](b2.drain())
	vAssert("b-pending-invocation", invB != nil)
	before := vRealmSizes(rb)

	gone := false
	for k := 0; k < nOps; k++ {
		req := wamp.ID(100 + k)
		if gone {
			break
		}
		switch vChoice("op", 12) {
		case 0:
			a1.send(&wamp.Publish{Request: req, Topic: "x.topic", Options: wamp.Dict{"acknowledge": true}, Arguments: wamp.List{"from-a"}})
		case 1:
			a1.send(&wamp.Call{Request: req, Procedure: "x.proc"})
		case 2:
			a1.send(&wamp.Unsubscribe{Request: req, Subscription: subB.Subscription})
		case 3:
			a1.send(&wamp.Unregister{Request: req, Registration: regB.Registration})
		case 4:
			a1.send(&wamp.Cancel{Request: 4, Options: wamp.Dict{"mode": "skip"}})
		case 5:
			a1.send(&wamp.Yield{Request: invB.Request, Arguments: wamp.List{"forged"}})
		case 6:
			a1.send(&wamp.Error{Type: wamp.INVOCATION, Request: invB.Request, Error: "forged.error", Details: wamp.Dict{}})
		case 7:
			target := []wamp.ID{b1.id, b2.id}[vChoice("kill.target", 2)]
			a1.send(&wamp.Call{Request: req, Procedure: wamp.MetaProcSessionKill, Arguments: wamp.List{target}})
		case 8:
			a1.send(&wamp.Call{Request: req, Procedure: wamp.MetaProcSessionKillAll})
		case 9:
			a1.send(&wamp.Subscribe{Request: req, Topic: "x.topic"})
			a1.send(&wamp.Register{Request: req + 50, Procedure: "x.proc"})
		case 10:
			a1.send(&wamp.Call{Request: req, Procedure: wamp.MetaProcSessionFlushTestaments})
		case 11:
			a1.send(&wamp.Goodbye{Reason: wamp.CloseRealm, Details: wamp.Dict{}})
			gone = true
		}
		a1.drain()
	}
	vAssert("other-realm-sessions-receive-nothing", len(b1.drain()) == 0 && len(b2.drain()) == 0)
	vAssert("other-realm-state-unchanged", vRealmSizes(rb) == before)

	// meta API of A shows nothing of B (fresh observer session in A)
	a2 := vAttach(r, "realm.a", nil, 64)
	vAssert("a2-attached", a2 != nil)
	lst, _, _ := a2.metaCall(wamp.MetaProcSessionList, nil, nil)
	if lst != nil && len(lst.Arguments) == 1 {
		ids, ok := vIDList(lst.Arguments[0])
		vAssert("session-list-confined", ok && !vHasID(ids, b1.id) && !vHasID(ids, b2.id))
	}
	_, er, _ := a2.metaCall(wamp.MetaProcSessionGet, wamp.List{b1.id}, nil)
	vAssert("foreign-session-not-visible", er != nil && er.Error == wamp.ErrNoSuchSession)
	vAssert("other-realm-still-silent", len(b1.drain()) == 0 && len(b2.drain()) == 0)

	// B still works: the pending call completes, and only now
	b2.send(&wamp.Yield{Request: invB.Request, Arguments: wamp.List{"real"}})
	res, n := vFindMsg[*wamp.Result](b1.drain())
	vAssert("other-realm-call-completes-with-its-own-result", n == 1 && res != nil && res.Request == 4 && len(res.Arguments) == 1 && res.Arguments[0] == any("real"))
	// ... and B's own life cycle events are intact: b2 kills b1 (no reason
	// given): b1's testament and its on_leave announcement appear in B
	b2.send(&wamp.Subscribe{Request: 60, Topic: "x.topic"})
	b2.send(&wamp.Subscribe{Request: 61, Topic: wamp.MetaEventSessionOnLeave})
	b2.drain()
	b1.drain()
	kr, _, rest := b2.metaCall(wamp.MetaProcSessionKill, wamp.List{b1.id}, nil)
	vAssert("kill-in-other-realm-works", kr != nil)
	rest = append(rest, b2.drain()...)
	nWill, nLeave := 0, 0
	for _, m := range rest {
		if e, ok := m.(*wamp.Event); ok && len(e.Arguments) >= 1 {
			if e.Arguments[0] == any("will") {
				nWill++
			}
			if id, isID := wamp.AsID(e.Arguments[0]); isID && id == b1.id {
				nLeave++
			}
		}
	}
	vAssert("testament-of-killed-session-published-in-its-realm", nWill == 1)
	vAssert("on-leave-of-killed-session-announced-in-its-realm", nLeave == 1)
	vCover("realms-checked")
}

func Harness_C11_Realms_2()         { vC11(2, false) }
func Harness_C11_RealmsTemplate_1() { vC11(1, true) }
func Harness_C11_Realms_3()         { vC11(3, false) }
