package router

import (
	"github.com/gammazero/nexus/v3/transport"
	"github.com/gammazero/nexus/v3/wamp"
)

// C11: nothing crosses realm boundaries. Realm B holds state; a session of
// realm A aims every kind of request at B's URIs and ids.

func vRealmSizes(rl *realm) [6]int {
	return [6]int{len(rl.clients), len(rl.broker.subscriptions), len(rl.dealer.registrations), len(rl.dealer.calls), len(rl.dealer.invocations), len(rl.testaments)}
}

func vC11(nOps int, template bool) {
	cfgB := &RealmConfig{URI: "realm.b", AnonymousAuth: true, EnableMetaKill: true, AllowDisclose: true}
	cfg := &Config{RealmConfigs: []*RealmConfig{cfgB}}
	if template {
		cfg.RealmTemplate = &RealmConfig{AnonymousAuth: true, EnableMetaKill: true, AllowDisclose: true}
	} else {
		cfg.RealmConfigs = append(cfg.RealmConfigs, &RealmConfig{URI: "realm.a", AnonymousAuth: true, EnableMetaKill: true, AllowDisclose: true})
	}
	r := vNewRouter(cfg)
	b1 := vAttach(r, "realm.b", nil, 64)
	b2 := vAttach(r, "realm.b", nil, 64)
	a1 := vAttach(r, "realm.a", nil, 64)
	vAssert("attached", b1 != nil && b2 != nil && a1 != nil)
	rb := r.realms["realm.b"]
	vAssert("realms-distinct", r.realms["realm.a"] != nil && r.realms["realm.a"] != rb)

	// state in B: subscription, registration, pending call b1 -> b2, testament, meta observer
	b1.send(&wamp.Subscribe{Request: 1, Topic: "x.topic"})
	b1.send(&wamp.Subscribe{Request: 2, Topic: "wamp.", Options: wamp.Dict{"match": "prefix"}})
	b2.send(&wamp.Register{Request: 3, Procedure: "x.proc"})
	b2m := b2.drain()
	b1m := b1.drain()
	subB, _ := vFindMsg[*wamp.Subscribed](b1m)
	regB, _ := vFindMsg[*wamp.Registered](b2m)
	vAssert("b-setup", subB != nil && regB != nil)
	b1.send(&wamp.Call{Request: 4, Procedure: "x.proc"})
	b1.send(&wamp.Call{Request: 5, Procedure: wamp.MetaProcSessionAddTestament, Arguments: wamp.List{"x.topic", wamp.List{"will"}, wamp.Dict{}}})
	b1.drain()
	invB, _ := vFindMsg[*wamp.Invocation](b2.drain())
	vAssert("b-pending-invocation", invB != nil)
	before := vRealmSizes(rb)

	gone := false
	for k := 0; k < nOps; k++ {
		req := wamp.ID(100 + k)
		if gone {
			break
		}
		switch vChoice("op", 12) {
		case 0:
			a1.send(&wamp.Publish{Request: req, Topic: "x.topic", Options: wamp.Dict{"acknowledge": true}, Arguments: wamp.List{"from-a"}})
		case 1:
			a1.send(&wamp.Call{Request: req, Procedure: "x.proc"})
		case 2:
			a1.send(&wamp.Unsubscribe{Request: req, Subscription: subB.Subscription})
		case 3:
			a1.send(&wamp.Unregister{Request: req, Registration: regB.Registration})
		case 4:
			a1.send(&wamp.Cancel{Request: 4, Options: wamp.Dict{"mode": "skip"}})
		case 5:
			a1.send(&wamp.Yield{Request: invB.Request, Arguments: wamp.List{"forged"}})
		case 6:
			a1.send(&wamp.Error{Type: wamp.INVOCATION, Request: invB.Request, Error: "forged.error", Details: wamp.Dict{}})
		case 7:
			target := []wamp.ID{b1.id, b2.id}[vChoice("kill.target", 2)]
			a1.send(&wamp.Call{Request: req, Procedure: wamp.MetaProcSessionKill, Arguments: wamp.List{target}})
		case 8:
			a1.send(&wamp.Call{Request: req, Procedure: wamp.MetaProcSessionKillAll})
		case 9:
			a1.send(&wamp.Subscribe{Request: req, Topic: "x.topic"})
			a1.send(&wamp.Register{Request: req + 50, Procedure: "x.proc"})
		case 10:
			a1.send(&wamp.Call{Request: req, Procedure: wamp.MetaProcSessionFlushTestaments})
		case 11:
			a1.send(&wamp.Goodbye{Reason: wamp.CloseRealm, Details: wamp.Dict{}})
			gone = true
		}
		a1.drain()
	}
	vAssert("other-realm-sessions-receive-nothing", len(b1.drain()) == 0 && len(b2.drain()) == 0)
	vAssert("other-realm-state-unchanged", vRealmSizes(rb) == before)

	// meta API of A shows nothing of B (fresh observer session in A)
	a2 := vAttach(r, "realm.a", nil, 64)
	vAssert("a2-attached", a2 != nil)
	lst, _, _ := a2.metaCall(wamp.MetaProcSessionList, nil, nil)
	if lst != nil && len(lst.Arguments) == 1 {
		ids, ok := vIDList(lst.Arguments[0])
		vAssert("session-list-confined", ok && !vHasID(ids, b1.id) && !vHasID(ids, b2.id))
	}
	_, er, _ := a2.metaCall(wamp.MetaProcSessionGet, wamp.List{b1.id}, nil)
	vAssert("foreign-session-not-visible", er != nil && er.Error == wamp.ErrNoSuchSession)
	vAssert("other-realm-still-silent", len(b1.drain()) == 0 && len(b2.drain()) == 0)

	// B still works: the pending call completes, and only now
	b2.send(&wamp.Yield{Request: invB.Request, Arguments: wamp.List{"real"}})
	res, n := vFindMsg[*wamp.Result](b1.drain())
	vAssert("other-realm-call-completes-with-its-own-result", n == 1 && res != nil && res.Request == 4 && len(res.Arguments) == 1 && res.Arguments[0] == any("real"))
	// ... and B's own life cycle events are intact: b2 kills b1 (no reason
	// given): b1's testament and its on_leave announcement appear in B
	b2.send(&wamp.Subscribe{Request: 60, Topic: "x.topic"})
	b2.send(&wamp.Subscribe{Request: 61, Topic: wamp.MetaEventSessionOnLeave})
	b2.drain()
	b1.drain()
	kr, _, rest := b2.metaCall(wamp.MetaProcSessionKill, wamp.List{b1.id}, nil)
	vAssert("kill-in-other-realm-works", kr != nil)
	rest = append(rest, b2.drain()...)
	nWill, nLeave := 0, 0
	for _, m := range rest {
		if e, ok := m.(*wamp.Event); ok && len(e.Arguments) >= 1 {
			if e.Arguments[0] == any("will") {
				nWill++
			}
			if id, isID := wamp.AsID(e.Arguments[0]); isID && id == b1.id {
				nLeave++
			}
		}
	}
	vAssert("testament-of-killed-session-published-in-its-realm", nWill == 1)
	vAssert("on-leave-of-killed-session-announced-in-its-realm", nLeave == 1)
	vCover("realms-checked")
}

func Harness_C11_Realms_2()         { vC11(2, false) }
func Harness_C11_RealmsTemplate_1() { vC11(1, true) }
func Harness_C11_Realms_3()         { vC11(3, false) }

// Two in-process clients whose HELLO messages share one details dict (e.g.
// one configuration reused for two connections) join different realms; the
// first comes with transport details. Nothing of it shows up in the other realm.
func Harness_C11_SharedHelloDetails() {
	r := vNewRouter(&Config{RealmConfigs: []*RealmConfig{
		{URI: "realm.a", AnonymousAuth: true}, {URI: "realm.b", AnonymousAuth: true}}})
	shared := wamp.Dict{"roles": vAllRoles, "authid": "same-config"}
	if vBool("custom-detail") {
		shared["x_custom"] = wamp.Dict{"k": 1}
	}
	nShared := len(shared)
	attach := func(realm wamp.URI, td wamp.Dict) wamp.ID {
		c, rp := transport.LinkedPeersQSize(16)
		go func() { c.Send() <- &wamp.Hello{Realm: realm, Details: shared} }()
		err := r.AttachClient(rp, td)
		vAssert("attached", err == nil)
		if err != nil {
			return 0
		}
		w, ok := (<-c.Recv()).(*wamp.Welcome)
		vAssert("welcome", ok)
		if !ok {
			return 0
		}
		return w.ID
	}
	td := wamp.Dict{"peer": "10.1.1.1:5000"}
	if vBool("with-auth") {
		td["auth"] = wamp.Dict{"cookie": "secret"}
	}
	idA := attach("realm.a", td)
	idB := attach("realm.b", nil)
	sa := r.realms["realm.a"].clients[idA]
	sb := r.realms["realm.b"].clients[idB]
	vAssert("both-attached", sa != nil && sb != nil)
	if sa == nil || sb == nil {
		return
	}
	_, aHas := sa.Details["transport"]
	vAssert("own-transport-details-recorded", aHas)
	_, leaked := sb.Details["transport"]
	vAssert("transport-details-of-another-realms-session-do-not-leak", !leaked)
	vAssert("the-clients-own-hello-dict-is-not-written-to", len(shared) == nShared)
	vCover("shared-hello-checked")
}

// While one realm is being removed - and its shutdown is held up by a busy
// session handler - the other realms go on: their sessions are served, new
// sessions join them, realms can be added.
func Harness_C11_RemoveRealmDoesNotHoldUpOthers() {
	entered := make(chan struct{})
	release := make(chan struct{})
	ff := func(msg *wamp.Publish) PublishFilter {
		if msg.Topic == "gate.topic" {
			close(entered)
			<-release
		}
		return nil
	}
	r := vNewRouter(&Config{RealmConfigs: []*RealmConfig{
		{URI: "realm.a", AnonymousAuth: true, PublishFilterFactory: ff}, {URI: "realm.b", AnonymousAuth: true}}})
	a := vAttach(r, "realm.a", nil, 64)
	b := vAttach(r, "realm.b", nil, 64)
	vAssert("attached", a != nil && b != nil)
	a.send(&wamp.Publish{Request: 2, Topic: "gate.topic"})
	<-entered // a's handler is busy: the shutdown of realm.a has to wait for it
	removed := make(chan struct{})
	go func() {
		r.RemoveRealm("realm.a")
		close(removed)
	}()
	vQuiesce()
	select {
	case <-removed:
		vAssert("removal-waits-for-the-busy-handler", false)
	default:
	}
	// meanwhile, in and around realm.b
	vBystanderServed(r, b)
	joined := make(chan struct{})
	var b2 *vClient
	go func() {
		b2 = vAttach(r, "realm.b", nil, 64)
		close(joined)
	}()
	vQuiesce()
	select {
	case <-joined:
		vAssert("new-session-joins-other-realm-during-removal", b2 != nil)
	default:
		vAssert("join-of-other-realm-not-held-up-by-removal", false)
	}
	added := make(chan struct{})
	var aerr error
	go func() {
		aerr = r.AddRealm(&RealmConfig{URI: "realm.c", AnonymousAuth: true})
		close(added)
	}()
	vQuiesce()
	select {
	case <-added:
		vAssert("realm-added-during-removal", aerr == nil)
	default:
		vAssert("adding-a-realm-not-held-up-by-removal", false)
	}
	close(release)
	<-removed
	<-joined
	<-added
	vBystanderServed(r, b)
	vCover("remove-realm-isolation-checked")
}

// Realms that were configured through shared configuration objects - realms
// created from one template (the template's topic history configurations are
// the same objects for all of them), or realms added one after the other from
// one RealmConfig value that the application adjusts in between - are
// independent all the same.
func Harness_C11_SharedConfigObjects() {
	if vBool("template-with-event-history") {
		tmpl := &RealmConfig{AnonymousAuth: true,
			TopicEventHistoryConfigs: []*TopicEventHistoryConfig{{Topic: "hist.topic", MatchPolicy: wamp.MatchExact, Limit: 3}}}
		r := vNewRouter(&Config{RealmTemplate: tmpl})
		a := vAttach(r, "realm.a", nil, 64)
		b := vAttach(r, "realm.b", nil, 64)
		vAssert("attached", a != nil && b != nil)
		if a == nil || b == nil {
			return
		}
		a.send(&wamp.Publish{Request: 1, Topic: "hist.topic", Arguments: wamp.List{"only-in-a"}})
		a.drain()
		// the history subscription has the same id in both realms
		a.send(&wamp.Call{Request: 2, Procedure: wamp.MetaProcSubLookup, Arguments: wamp.List{"hist.topic"}})
		ra, na := vFindMsg[*wamp.Result](a.drain())
		b.send(&wamp.Call{Request: 2, Procedure: wamp.MetaProcSubLookup, Arguments: wamp.List{"hist.topic"}})
		rb, nb := vFindMsg[*wamp.Result](b.drain())
		vAssert("history-subscription-known-in-both", na == 1 && nb == 1 && len(ra.Arguments) == 1 && len(rb.Arguments) == 1)
		if na != 1 || nb != 1 || len(ra.Arguments) != 1 || len(rb.Arguments) != 1 {
			return
		}
		b.send(&wamp.Call{Request: 3, Procedure: wamp.MetaProcEventHistory, Arguments: wamp.List{rb.Arguments[0]}})
		hb, nhb := vFindMsg[*wamp.Result](b.drain())
		vAssert("history-query-answered", nhb == 1)
		if nhb == 1 {
			// (the retained events are the arguments of the result)
			vAssert("other-realms-history-not-visible", len(hb.Arguments) == 0)
		}
		a.send(&wamp.Call{Request: 3, Procedure: wamp.MetaProcEventHistory, Arguments: wamp.List{ra.Arguments[0]}})
		ha, nha := vFindMsg[*wamp.Result](a.drain())
		vAssert("own-history-kept", nha == 1)
		if nha == 1 {
			vAssert("own-history-has-the-publication", len(ha.Arguments) == 1)
		}
		r.Close()
		vCover("template-history-checked")
		return
	}
	// one RealmConfig value, adjusted between two AddRealm calls
	flag := vChoice("flag-adjusted-between-AddRealm-calls", 3)
	first := vBool("value-for-the-first-realm")
	z := &vAuthz{decision: 1, armed: true}
	cfg := RealmConfig{URI: "realm.a", AnonymousAuth: true, Authorizer: z}
	set := func(v bool) {
		switch flag {
		case 0:
			cfg.MetaStrict = v
		case 1:
			cfg.RequireLocalAuthz = v
		case 2:
			cfg.RequireLocalAuth = v
			cfg.AnonymousAuth = false // local clients that must authenticate have no way to
		}
	}
	set(first)
	r := vNewRouter(&Config{})
	vAssert("realm-a-added", r.AddRealm(&cfg) == nil)
	probe := func(when string) bool {
		// what a local session of realm a observes
		switch flag {
		case 0:
			c := vAttach(r, "realm.a", wamp.Dict{"roles": vAllRoles, "private": "x"}, 16)
			vAssert("attached-"+when, c != nil)
			if c == nil {
				return false
			}
			z.armed = false
			c.send(&wamp.Call{Request: 1, Procedure: wamp.MetaProcSessionGet, Arguments: wamp.List{c.id}})
			res, n := vFindMsg[*wamp.Result](c.drain())
			z.armed = true
			vAssert("session-get-answered-"+when, n == 1 && len(res.Arguments) == 1)
			shown := false
			if n == 1 && len(res.Arguments) == 1 {
				d, _ := wamp.AsDict(res.Arguments[0])
				_, shown = d["private"]
			}
			c.send(&wamp.Goodbye{Reason: wamp.CloseRealm, Details: wamp.Dict{}})
			c.drain()
			return !shown
		case 1:
			c := vAttach(r, "realm.a", nil, 16)
			vAssert("attached-"+when, c != nil)
			if c == nil {
				return false
			}
			c.send(&wamp.Subscribe{Request: 1, Topic: "t"})
			_, nerr := vFindMsg[*wamp.Error](c.drain())
			z.armed = false
			c.send(&wamp.Goodbye{Reason: wamp.CloseRealm, Details: wamp.Dict{}})
			c.drain()
			z.armed = true
			return nerr == 1
		default:
			c := vAttach(r, "realm.a", nil, 16)
			if c != nil {
				z.armed = false
				c.send(&wamp.Goodbye{Reason: wamp.CloseRealm, Details: wamp.Dict{}})
				c.drain()
				z.armed = true
			}
			return c == nil
		}
	}
	before := probe("before")
	vAssert("first-realm-follows-its-configuration", before == first)
	cfg.URI = "realm.b"
	set(!first)
	vAssert("realm-b-added", r.AddRealm(&cfg) == nil)
	after := probe("after")
	vAssert("adding-a-realm-does-not-change-an-existing-one", after == before)
	r.Close()
	vCover("reused-config-checked")
}
