package router

import "github.com/gammazero/nexus/v3/wamp"

// C02 / C13: one routed call, then a symbolic sequence of events from caller,
// callee and a bystander. The queues of all three sessions are compared with
// an independent reference model of the call life cycle.

const (
	evYieldFinal = iota
	evYieldProgress
	evCalleeError
	evForeignYieldFinal
	evForeignYieldProgress
	evForeignError
	evCancelSkip
	evCancelKillNoWait
	evCancelDefault
	evCancelKill
	evCancelBadMode
	evForeignCancel
	evCalleeLeaves
	evTimerFires
	evCallerLeaves
	evCalleeUnregisters
	evCount
)

type vExpect struct {
	kind  string // "result","progress","error","interrupt","cancel-error"
	uri   wamp.URI
	mode  string
	final bool
}

func vFeat(role string, feats map[string]bool) wamp.Dict {
	return vRoles(map[string]map[string]bool{role: feats})
}

func vC02(nEvents int, withTimeout bool, eventSet []int) {
	d := newDealer(vNopLog{}, false, true, false)
	canCancel := vBool("callee.call_canceling")
	callerFeat := map[string]bool{"call_canceling": true, "progressive_call_results": true}
	calleeFeat := map[string]bool{"call_canceling": canCancel, "progressive_call_results": true}
	caller := vNewSess(21, nil, vFeat("caller", callerFeat), 32)
	callee := vNewSess(22, nil, vFeat("callee", calleeFeat), 32)
	other := vNewSess(23, nil, vFeat("callee", map[string]bool{"call_canceling": true}), 32)

	d.register(callee.s, &wamp.Register{Request: 1, Procedure: "p.q"})
	vSyncDealer(d)
	rr := callee.vDrain()
	vAssert("registered", len(rr) == 1)
	reg, ok := rr[0].(*wamp.Registered)
	vAssert("registered-type", ok)

	callReq := vValidID("call.request")
	arg := vInt64("call.arg")
	opts := wamp.Dict{"receive_progress": true}
	var timeout int64
	if withTimeout {
		timeout = 1 + int64(vChoice("timeout.ms", 3))*1000
		opts["timeout"] = timeout
	}
	t0 := vNow()
	d.call(caller.s, &wamp.Call{Request: callReq, Procedure: "p.q", Options: opts, Arguments: wamp.List{arg}})
	vSyncDealer(d)
	im := callee.vDrain()
	vAssert("one-invocation", len(im) == 1)
	inv, ok := im[0].(*wamp.Invocation)
	vAssert("invocation-type", ok)
	vAssert("invocation-registration", inv.Registration == reg.Registration)
	vAssert("invocation-args", len(inv.Arguments) == 1 && inv.Arguments[0] == any(arg))
	vAssert("invocation-receive-progress", (inv.Details["receive_progress"] == any(true)) == canCancel)
	vAssert("caller-silent-while-pending", len(caller.vDrain()) == 0)

	// reference state
	pending := true
	killOutstanding := false
	canceled := false // router-side "already cancelled" latch
	callerGone, calleeGone := false, false
	unregistered := false
	var wantCaller, wantCallee, wantOther []vExpect
	yarg := vInt64("yield.arg")

	for step := 0; step < nEvents; step++ {
		ev := eventSet[vChoice("event", len(eventSet))]
		switch ev {
		case evYieldFinal, evYieldProgress:
			if calleeGone {
				continue
			}
			progress := ev == evYieldProgress
			yo := wamp.Dict{}
			if progress {
				yo["progress"] = true
			}
			d.yield(callee.s, &wamp.Yield{Request: inv.Request, Options: yo, Arguments: wamp.List{yarg}})
			if pending {
				if progress {
					wantCaller = append(wantCaller, vExpect{kind: "progress"})
				} else {
					wantCaller = append(wantCaller, vExpect{kind: "result", final: true})
					pending = false
				}
			} else if progress {
				wantCallee = append(wantCallee, vExpect{kind: "interrupt", mode: wamp.CancelModeKillNoWait})
			}
		case evCalleeError:
			if calleeGone {
				continue
			}
			d.error(callee.s, &wamp.Error{Type: wamp.INVOCATION, Request: inv.Request, Error: "my.err", Details: wamp.Dict{}, Arguments: wamp.List{yarg}})
			if pending {
				wantCaller = append(wantCaller, vExpect{kind: "error", uri: "my.err", final: true})
				pending = false
			}
		case evForeignYieldFinal, evForeignYieldProgress:
			progress := ev == evForeignYieldProgress
			yo := wamp.Dict{}
			if progress {
				yo["progress"] = true
			}
			d.yield(other.s, &wamp.Yield{Request: inv.Request, Options: yo, Arguments: wamp.List{yarg}})
			if progress {
				wantOther = append(wantOther, vExpect{kind: "interrupt", mode: wamp.CancelModeKillNoWait})
			}
		case evForeignError:
			d.error(other.s, &wamp.Error{Type: wamp.INVOCATION, Request: inv.Request, Error: "foreign.err", Details: wamp.Dict{}})
		case evCancelSkip, evCancelKillNoWait, evCancelDefault, evCancelKill, evCancelBadMode:
			if callerGone {
				continue
			}
			co := wamp.Dict{}
			mode := wamp.CancelModeKillNoWait
			switch ev {
			case evCancelSkip:
				mode = wamp.CancelModeSkip
				co["mode"] = mode
			case evCancelKillNoWait:
				co["mode"] = mode
			case evCancelKill:
				mode = wamp.CancelModeKill
				co["mode"] = mode
			case evCancelBadMode:
				co["mode"] = "bogus"
			}
			d.cancel(caller.s, &wamp.Cancel{Request: callReq, Options: co})
			if ev == evCancelBadMode {
				wantCaller = append(wantCaller, vExpect{kind: "cancel-error", uri: wamp.ErrInvalidArgument})
				break
			}
			if !pending || canceled {
				break // finished call or repeated cancel: no effect
			}
			canceled = true
			interrupt := mode != wamp.CancelModeSkip && canCancel && !calleeGone
			if interrupt {
				wantCallee = append(wantCallee, vExpect{kind: "interrupt", mode: mode})
			}
			if mode == wamp.CancelModeKill && interrupt {
				killOutstanding = true
			} else {
				wantCaller = append(wantCaller, vExpect{kind: "error", uri: wamp.ErrCanceled, final: true})
				pending = false
			}
		case evForeignCancel:
			d.cancel(other.s, &wamp.Cancel{Request: callReq, Options: wamp.Dict{"mode": wamp.CancelModeSkip}})
		case evCalleeLeaves:
			if calleeGone {
				continue
			}
			calleeGone = true
			d.removeSession(callee.s)
			if pending {
				// the callee's session has ended: the caller is owed its final reply now
				wantCaller = append(wantCaller, vExpect{kind: "error", uri: wamp.ErrCanceled, final: true})
				pending = false
			}
		case evTimerFires:
			if !withTimeout {
				continue
			}
			fired := vFireTimer()
			if fired && pending && !canceled {
				if canCancel && !calleeGone {
					wantCallee = append(wantCallee, vExpect{kind: "interrupt", mode: wamp.CancelModeKillNoWait})
				}
				wantCaller = append(wantCaller, vExpect{kind: "error", uri: wamp.ErrTimeout, final: true})
				pending = false
				canceled = true
				vAssert("timeout-not-early", vNow()-t0 >= timeout*1000000)
				vCover("timeout-fired")
			}
		case evCallerLeaves:
			if callerGone {
				continue
			}
			callerGone = true
			d.removeSession(caller.s)
			pending = false
		case evCalleeUnregisters:
			// unregistering does not affect the invocation that is already pending
			if calleeGone || unregistered {
				continue
			}
			unregistered = true
			d.unregister(callee.s, &wamp.Unregister{Request: 2, Registration: reg.Registration})
			wantCallee = append(wantCallee, vExpect{kind: "unregistered"})
		}
		vSyncDealer(d)
	}
	_ = killOutstanding

	// --- compare queues ---
	gotCaller := caller.vDrain()
	if !callerGone {
		vAssert("caller-message-count", len(gotCaller) == len(wantCaller))
		finals := 0
		for i, m := range gotCaller {
			if i >= len(wantCaller) {
				break
			}
			w := wantCaller[i]
			switch m := m.(type) {
			case *wamp.Result:
				prog, _ := m.Details["progress"].(bool)
				vAssert("result-expected-here", (w.kind == "result" && !prog) || (w.kind == "progress" && prog))
				vAssert("result-request-id", m.Request == callReq)
				vAssert("result-payload", len(m.Arguments) == 1 && m.Arguments[0] == any(yarg))
				if !prog {
					finals++
				}
			case *wamp.Error:
				if w.kind == "cancel-error" {
					vAssert("cancel-error", m.Type == wamp.CANCEL && m.Error == w.uri && m.Request == callReq)
				} else {
					vAssert("error-expected-here", w.kind == "error" && m.Type == wamp.CALL && m.Error == w.uri && m.Request == callReq)
					finals++
				}
			default:
				vAssert("caller-unexpected-message-type", false)
			}
			if w.final {
				vCover("final-reply-" + w.kind)
			}
		}
		vAssert("at-most-one-final-reply", finals <= 1)
	}
	gotCallee := callee.vDrain()
	if !calleeGone {
		vAssert("callee-message-count", len(gotCallee) == len(wantCallee))
		for i, m := range gotCallee {
			if i >= len(wantCallee) {
				break
			}
			if wantCallee[i].kind == "unregistered" {
				_, isU := m.(*wamp.Unregistered)
				vAssert("unregistered-expected-here", isU)
				continue
			}
			in, ok := m.(*wamp.Interrupt)
			vAssert("callee-gets-only-interrupts", ok)
			if ok {
				vAssert("interrupt-request", in.Request == inv.Request)
				md, _ := in.Options["mode"].(string)
				vAssert("interrupt-mode", md == wantCallee[i].mode)
			}
		}
	}
	gotOther := other.vDrain()
	vAssert("bystander-message-count", len(gotOther) == len(wantOther))
	for _, m := range gotOther {
		_, ok := m.(*wamp.Interrupt)
		vAssert("bystander-gets-only-interrupts", ok)
	}
	// router holds no state for a finished call
	if !pending {
		vSyncDealer(d)
		vAssert("finished-call-leaves-no-state", len(d.calls) == 0 && len(d.invocations) == 0 && len(d.invocationByCall) == 0)
	}
	vCover("scenario-done")
}

var vAllEvents = []int{evYieldFinal, evYieldProgress, evCalleeError, evForeignYieldFinal, evForeignYieldProgress, evForeignError,
	evCancelSkip, evCancelKillNoWait, evCancelDefault, evCancelKill, evCancelBadMode, evForeignCancel, evCalleeLeaves, evCallerLeaves, evCalleeUnregisters}

func Harness_C02_CallLifecycle_2() { vC02(2, false, vAllEvents) }
func Harness_C02_CallLifecycle_3() { vC02(3, false, vAllEvents) }
func Harness_C02_CallLifecycle_4() { vC02(4, false, vAllEvents) }

var vTimeoutEvents = []int{evYieldFinal, evYieldProgress, evCalleeError, evCancelSkip, evCancelKill, evCalleeLeaves, evTimerFires}

func Harness_C13_Timeout_2() { vC02(2, true, vTimeoutEvents) }
func Harness_C13_Timeout_3() { vC02(3, true, vTimeoutEvents) }

// progressive call invocations: a call made of several CALL chunks with one
// request id; after its final RESULT nothing more reaches the caller for that
// request, whatever the callee or the caller do afterwards
func Harness_C02_ProgressiveInvocationLifecycle() {
	d := newDealer(vNopLog{}, false, true, false)
	feat := map[string]bool{"call_canceling": true, "progressive_call_invocations": true, "progressive_call_results": true}
	caller := vNewSess(21, nil, vFeat("caller", feat), 32)
	callee := vNewSess(22, nil, vFeat("callee", feat), 32)
	d.register(callee.s, &wamp.Register{Request: 1, Procedure: "p.q"})
	vSyncDealer(d)
	callee.vDrain()
	nChunks := 1 + vChoice("more-chunks", 3) // 1..3 chunks, the last one without progress
	var invReq wamp.ID
	for i := 0; i < nChunks; i++ {
		opts := wamp.Dict{}
		if i < nChunks-1 {
			opts["progress"] = true
		}
		d.call(caller.s, &wamp.Call{Request: 77, Procedure: "p.q", Options: opts, Arguments: wamp.List{i}})
		vSyncDealer(d)
		inv, n := vFindMsg[*wamp.Invocation](callee.vDrain())
		vAssert("every-chunk-is-one-invocation", n == 1)
		if n != 1 {
			return
		}
		if i == 0 {
			invReq = inv.Request
		}
		vAssert("chunks-reuse-the-invocation-id", inv.Request == invReq)
		vAssert("chunk-payload", len(inv.Arguments) == 1 && inv.Arguments[0] == any(i))
		vAssert("caller-silent-while-pending", len(caller.vDrain()) == 0)
	}
	// the callee answers finally
	d.yield(callee.s, &wamp.Yield{Request: invReq, Arguments: wamp.List{"done"}})
	vSyncDealer(d)
	got := caller.vDrain()
	res, n := vFindMsg[*wamp.Result](got)
	vAssert("one-final-result", n == 1 && len(got) == 1 && res.Request == 77)
	vSyncDealer(d)
	vAssert("finished-call-leaves-no-state", len(d.calls) == 0 && len(d.invocations) == 0 && len(d.invocationByCall) == 0)
	// whatever happens next, the caller hears nothing more about request 77
	switch vChoice("afterwards", 4) {
	case 0:
		d.removeSession(callee.s)
	case 1:
		d.yield(callee.s, &wamp.Yield{Request: invReq, Arguments: wamp.List{"again"}})
	case 2:
		d.error(callee.s, &wamp.Error{Type: wamp.INVOCATION, Request: invReq, Error: "late.err", Details: wamp.Dict{}})
	case 3:
		d.cancel(caller.s, &wamp.Cancel{Request: 77, Options: wamp.Dict{"mode": "killnowait"}})
	}
	vSyncDealer(d)
	vAssert("nothing-after-the-final-reply", len(caller.vDrain()) == 0)
	vCover("progressive-invocation-lifecycle-done")
}
