package router

import "github.com/gammazero/nexus/v3/wamp"

// C01: UNSUBSCRIBE and departures: stable ids, proper errors, no effect on
// other sessions' subscriptions, no event after UNSUBSCRIBED.

func vC01ChurnT(nOps int, topics []wamp.URI, matches []string, nSess int) {
	b, err := newBroker(vNopLog{}, false, true, false, nil, nil)
	vAssert("broker-created", err == nil)
	sess := []*vSess{vNewSess(11, nil, nil, 32), vNewSess(12, nil, nil, 32), vNewSess(13, nil, nil, 32)}
	pub := vNewSess(14, nil, nil, 32)
	// reference: which session holds which of the two subscriptions, and their ids
	var held [3][3]bool
	var ids [3]wamp.ID
	nT := len(topics)
	var live [3]bool = [3]bool{true, true, true}
	for k := 0; k < nOps; k++ {
		si := vChoice("op.sess", nSess)
		ti := vChoice("op.sub", nT)
		req := wamp.ID(100 + k)
		if !live[si] {
			continue
		}
		switch vChoice("op", 4) {
		case 0: // subscribe
			o := wamp.Dict{}
			if matches[ti] != wamp.MatchExact {
				o["match"] = matches[ti]
			}
			b.subscribe(sess[si].s, &wamp.Subscribe{Request: req, Topic: topics[ti], Options: o})
			vSyncBroker(b)
			sd, n := vFindMsg[*wamp.Subscribed](sess[si].vDrain())
			vAssert("subscribed", n == 1 && sd.Request == req)
			anyHeld := held[0][ti] || held[1][ti] || held[2][ti]
			if anyHeld {
				vAssert("stable-id-while-subscription-exists", sd.Subscription == ids[ti])
			} else {
				ids[ti] = sd.Subscription
				for o := 0; o < nT; o++ {
					if o != ti {
						vAssert("subscriptions-have-different-ids", ids[o] != ids[ti])
					}
				}
			}
			held[si][ti] = true
		case 1: // unsubscribe own or foreign subscription id
			if ids[ti] == 0 {
				continue
			}
			b.unsubscribe(sess[si].s, &wamp.Unsubscribe{Request: req, Subscription: ids[ti]})
			vSyncBroker(b)
			rep := sess[si].vDrain()
			vAssert("unsubscribe-one-reply", len(rep) == 1)
			if held[si][ti] {
				u, ok := rep[0].(*wamp.Unsubscribed)
				vAssert("unsubscribed", ok && u.Request == req)
				held[si][ti] = false
				vCover("own-unsubscribe")
			} else {
				e, ok := rep[0].(*wamp.Error)
				vAssert("no-such-subscription-for-non-subscriber", ok && e.Error == wamp.ErrNoSuchSubscription && e.Request == req && e.Type == wamp.UNSUBSCRIBE)
				vCover("foreign-unsubscribe")
			}
		case 2: // unknown subscription id
			unk := vValidID("unknown.sub")
			vAssume(vAnd(vAnd(unk != ids[0], unk != ids[1]), unk != ids[2]))
			b.unsubscribe(sess[si].s, &wamp.Unsubscribe{Request: req, Subscription: unk})
			vSyncBroker(b)
			e, n := vFindMsg[*wamp.Error](sess[si].vDrain())
			vAssert("no-such-subscription", n == 1 && e.Error == wamp.ErrNoSuchSubscription && e.Request == req)
		case 3: // the session leaves
			b.removeSession(sess[si].s)
			vSyncBroker(b)
			live[si] = false
			held[si] = [3]bool{}
			sess[si].vDrain()
			vCover("session-left")
		}
		// nobody else hears anything about it
		for j := range sess {
			if j != si {
				vAssert("others-undisturbed", len(sess[j].vDrain()) == 0)
			}
		}
	}
	// a publication reaches exactly the current holders, once per subscription
	arg := vInt64("arg")
	b.publish(pub.s, &wamp.Publish{Request: 900, Topic: "a.b", Arguments: wamp.List{arg}})
	vSyncBroker(b)
	for i := range sess {
		got := sess[i].vDrain()
		want := 0
		for t := 0; t < nT; t++ {
			n := 0
			for _, m := range got {
				if e, ok := m.(*wamp.Event); ok && e.Subscription == ids[t] && ids[t] != 0 {
					n++
				}
			}
			if held[i][t] && live[i] {
				vAssert("holder-gets-exactly-one-event", n == 1)
				want++
			} else {
				vAssert("no-event-after-unsubscribe-or-leave", n == 0)
			}
		}
		vAssert("nothing-else-delivered", len(got) == want)
	}
	vCover("churn-checked")
}

func vC01Churn(nOps int) {
	vC01ChurnT(nOps, []wamp.URI{"a.b", "a."}, []string{wamp.MatchExact, wamp.MatchPrefix}, 3)
}

// the same URI string subscribed under all three policies: three independent subscriptions
func vC01ChurnSameURI(nOps, nSess int) {
	vC01ChurnT(nOps, []wamp.URI{"a.b", "a.b", "a.b"}, []string{wamp.MatchExact, wamp.MatchPrefix, wamp.MatchWildcard}, nSess)
}

func Harness_C01_Churn_3() { vC01Churn(3) }
func Harness_C01_Churn_4() { vC01Churn(4) }
func Harness_C01_ChurnSameURI_3() { vC01ChurnSameURI(3, 2) }
func Harness_C01_ChurnSameURI_4() { vC01ChurnSameURI(4, 3) }
