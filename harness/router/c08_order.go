package router

import "github.com/gammazero/nexus/v3/wamp"

// C08: per-peer ordering guarantees under concurrency. Client goroutines send
// concurrently; the engine explores every schedule with a bounded number of
// deviations from the default schedule (delay bounding).

func vC08Events(budget int) {
	r := vNewRouter(&Config{RealmConfigs: []*RealmConfig{{URI: "realm1", AnonymousAuth: true}}})
	p := vAttach(r, "realm1", nil, 64)
	s := vAttach(r, "realm1", nil, 64)
	x := vAttach(r, "realm1", nil, 64)
	vAssert("attached", p != nil && s != nil && x != nil)
	s.send(&wamp.Subscribe{Request: 1, Topic: "t"})
	s.drain()
	xkind := vChoice("bystander", 3)
	// sequence numbers are symbolic: the order check is decided for all payloads
	n1, n2 := vInt64("seq1"), vInt64("seq2")
	vAssume(vAnd(n1 > 0, n1 < n2))
	vSetPreempt(budget)
	pd, xd := make(chan struct{}), make(chan struct{})
	go func() {
		defer close(pd)
		p.send(&wamp.Publish{Request: 11, Topic: "t", Arguments: wamp.List{"p", n1}})
		p.send(&wamp.Publish{Request: 12, Topic: "t", Arguments: wamp.List{"p", n2}})
	}()
	go func() {
		defer close(xd)
		switch xkind {
		case 0:
			x.send(&wamp.Subscribe{Request: 21, Topic: "t"})
			x.send(&wamp.Publish{Request: 22, Topic: "t", Arguments: wamp.List{"x", 1}})
		case 1:
			x.send(&wamp.Subscribe{Request: 21, Topic: "t", Options: wamp.Dict{"match": "prefix"}})
			x.send(&wamp.Goodbye{Reason: wamp.CloseRealm, Details: wamp.Dict{}})
		case 2:
			x.send(&wamp.Publish{Request: 22, Topic: "t", Arguments: wamp.List{"x", 1}})
			x.send(&wamp.Publish{Request: 23, Topic: "t", Arguments: wamp.List{"x", 2}})
		}
	}()
	<-pd
	<-xd
	vSetPreempt(0)
	// subscriber s: events of publisher p in publication order
	var last int64
	nP := 0
	for _, m := range s.drain() {
		e, ok := m.(*wamp.Event)
		if !ok || len(e.Arguments) != 2 || e.Arguments[0] != any("p") {
			continue
		}
		k, _ := e.Arguments[1].(int64)
		vAssert("events-of-one-publisher-in-order", k > last)
		last = k
		nP++
	}
	vAssert("both-events-delivered", nP == 2)
	// bystander x: SUBSCRIBED precedes the first EVENT of that subscription
	var subID wamp.ID
	for _, m := range x.drain() {
		switch mm := m.(type) {
		case *wamp.Subscribed:
			subID = mm.Subscription
		case *wamp.Event:
			vAssert("subscribed-before-first-event", subID != 0 && mm.Subscription == subID)
		}
	}
	vCover("event-order-checked")
}

func Harness_C08_Events_1() { vC08Events(1) }
func Harness_C08_Events_2() { vC08Events(2) }
func Harness_C08_Events_3() { vC08Events(3) }

func vC08Calls(budget int) {
	r := vNewRouter(&Config{RealmConfigs: []*RealmConfig{{URI: "realm1", AnonymousAuth: true}}})
	caller := vAttach(r, "realm1", nil, 64)
	callee := vAttach(r, "realm1", nil, 64)
	x := vAttach(r, "realm1", nil, 64)
	vAssert("attached", caller != nil && callee != nil && x != nil)
	callee.send(&wamp.Register{Request: 1, Procedure: "p"})
	callee.drain()
	xkind := vChoice("bystander", 2)
	n1, n2 := vInt64("seq1"), vInt64("seq2")
	vAssume(vAnd(n1 > 0, vAnd(n1 < n2, n2 < 99)))
	vSetPreempt(budget)
	cd, xd := make(chan struct{}), make(chan struct{})
	go func() {
		defer close(cd)
		caller.send(&wamp.Call{Request: 11, Procedure: "p", Arguments: wamp.List{n1}, Options: wamp.Dict{"receive_progress": true}})
		caller.send(&wamp.Call{Request: 12, Procedure: "p", Arguments: wamp.List{n2}})
	}()
	go func() {
		defer close(xd)
		switch xkind {
		case 0:
			x.send(&wamp.Register{Request: 21, Procedure: "q"})
			x.send(&wamp.Call{Request: 22, Procedure: "p", Arguments: wamp.List{int64(99)}})
		case 1:
			x.send(&wamp.Call{Request: 22, Procedure: "p", Arguments: wamp.List{int64(99)}})
			x.send(&wamp.Goodbye{Reason: wamp.CloseRealm, Details: wamp.Dict{}})
		}
	}()
	<-cd
	<-xd
	// calls of one caller reach the callee in call order
	var last int64
	nInv := 0
	var first *wamp.Invocation
	for _, m := range callee.drain() {
		inv, ok := m.(*wamp.Invocation)
		if !ok || len(inv.Arguments) != 1 {
			continue
		}
		k, _ := inv.Arguments[0].(int64)
		if k == 99 {
			continue
		}
		vAssert("calls-of-one-caller-in-order", k > last)
		last = k
		nInv++
		if nInv == 1 {
			first = inv
		}
	}
	vAssert("both-calls-routed", nInv == 2 && first != nil)
	if first == nil {
		return
	}
	// progressive results then the final one, concurrently with the bystander's traffic
	yd := make(chan struct{})
	go func() {
		defer close(yd)
		callee.send(&wamp.Yield{Request: first.Request, Options: wamp.Dict{"progress": true}, Arguments: wamp.List{"a"}})
		callee.send(&wamp.Yield{Request: first.Request, Options: wamp.Dict{"progress": true}, Arguments: wamp.List{"b"}})
		callee.send(&wamp.Yield{Request: first.Request, Arguments: wamp.List{"c"}})
	}()
	<-yd
	vSetPreempt(0)
	want := []string{"a", "b", "c"}
	i := 0
	for _, m := range caller.drain() {
		res, ok := m.(*wamp.Result)
		if !ok || res.Request != 11 {
			continue
		}
		vAssert("results-in-yield-order-final-last", i < 3 && len(res.Arguments) == 1 && res.Arguments[0] == any(want[i]))
		prog, _ := res.Details["progress"].(bool)
		vAssert("only-last-is-final", prog == (i < 2))
		i++
	}
	vAssert("all-results-delivered", i == 3)
	vCover("call-order-checked")
}

func Harness_C08_Calls_1() { vC08Calls(1) }
func Harness_C08_Calls_2() { vC08Calls(2) }
func Harness_C08_Calls_3() { vC08Calls(3) }

// progressive results towards a caller whose queue is full for a while: they
// reach the caller in yield order, the final result last, whatever the length
// of the blockage (the callee's handler retries in line)
func Harness_C08_ResultOrderBlockedCaller() {
	r := vNewRouter(&Config{RealmConfigs: []*RealmConfig{{URI: "realm1", AnonymousAuth: true}}})
	caller := vAttach(r, "realm1", nil, 1)
	callee := vAttach(r, "realm1", nil, 64)
	vAssert("attached", caller != nil && callee != nil)
	callee.send(&wamp.Register{Request: 1, Procedure: "p"})
	callee.drain()
	caller.send(&wamp.Call{Request: 10, Procedure: "p", Options: wamp.Dict{"receive_progress": true}})
	inv, n := vFindMsg[*wamp.Invocation](callee.drain())
	vAssert("invocation", n == 1)
	if n != 1 {
		return
	}
	callee.send(&wamp.Yield{Request: inv.Request, Options: wamp.Dict{"progress": true}, Arguments: wamp.List{1}})
	vQuiesce()
	vAssert("first-result-queued", vQueued(caller) == 1)
	sent := make(chan struct{})
	go func() {
		defer close(sent)
		callee.send(&wamp.Yield{Request: inv.Request, Options: wamp.Dict{"progress": true}, Arguments: wamp.List{2}})
		callee.send(&wamp.Yield{Request: inv.Request, Arguments: wamp.List{3}})
	}()
	vQuiesce()
	// the caller does not read for a while
	blocked := []int{0, 1, 4}[vChoice("blocked.seconds", 3)]
	for i := 0; i < blocked; i++ {
		vAdvance(int64(1000) * 1000000)
	}
	// then it reads everything
	var got []wamp.Message
	for i := 0; i < 8 && len(got) < 3; i++ {
		got = append(got, caller.drain()...)
		vAdvance(int64(4500) * 1000000)
	}
	got = append(got, caller.drain()...)
	<-sent
	vAssert("all-results-delivered", len(got) == 3)
	for i, m := range got {
		res, ok := m.(*wamp.Result)
		vAssert("is-result", ok)
		if !ok {
			continue
		}
		prog, _ := res.Details["progress"].(bool)
		vAssert("results-in-yield-order-final-last", len(res.Arguments) == 1 && res.Arguments[0] == any(i+1) && prog == (i < 2))
	}
	_, nint := vFindMsg[*wamp.Interrupt](callee.drain())
	vAssert("no-spurious-interrupt", nint == 0)
	vCover("blocked-caller-order-checked(virtual-time)")
}

// Stall exploration of the ordering between a request's reply and the first
// traffic it enables: the handler serving a SUBSCRIBE (REGISTER) is
// descheduled after its k-th synchronisation operation while another session
// publishes (calls); the subscriber (callee) still sees SUBSCRIBED
// (REGISTERED) before the first EVENT (INVOCATION).
func Harness_C08_ReplyBeforeTrafficStall() {
	r := vNewRouter(&Config{RealmConfigs: []*RealmConfig{{URI: "realm1", AnonymousAuth: true}}})
	s := vAttach(r, "realm1", nil, 64)
	p := vAttach(r, "realm1", nil, 64)
	vAssert("attached", s != nil && p != nil)
	rpc := vBool("rpc")
	k := vChoice("stall-after", 5)
	fn := "subscribe"
	if rpc {
		fn = "register"
	}
	vStallFunc(fn, k)
	sent := make(chan struct{})
	go func() {
		defer close(sent)
		if rpc {
			s.send(&wamp.Register{Request: 1, Procedure: "proc"})
		} else {
			s.send(&wamp.Subscribe{Request: 1, Topic: "topic"})
		}
	}()
	vQuiesce()
	// the other session's traffic, possibly repeated
	for i := 0; i < 2; i++ {
		if rpc {
			p.send(&wamp.Call{Request: wamp.ID(10 + i), Procedure: "proc"})
		} else {
			p.send(&wamp.Publish{Request: wamp.ID(10 + i), Topic: "topic", Arguments: wamp.List{i}})
		}
	}
	vQuiesce()
	vStallRelease()
	vQuiesce()
	<-sent
	replied := false
	for _, m := range s.drain() {
		switch m.(type) {
		case *wamp.Subscribed, *wamp.Registered:
			replied = true
		case *wamp.Event:
			vAssert("subscribed-before-first-event", replied)
		case *wamp.Invocation:
			vAssert("registered-before-first-invocation", replied)
		}
	}
	vAssert("request-answered", replied)
	vCover("reply-before-traffic-checked")
}

// calls of one caller to one callee whose queue is (at times) full: whatever
// the callee takes out of its queue and whenever, the INVOCATIONs it receives
// are in call order, every call is either delivered or refused at once, never both
//
//verif:virtual-clock
func Harness_C08_CallOrderFullQueue() {
	r := vNewRouter(&Config{RealmConfigs: []*RealmConfig{{URI: "realm1", AnonymousAuth: true}}})
	caller := vAttach(r, "realm1", nil, 64)
	callee := vAttach(r, "realm1", nil, 1)
	vAssert("attached", caller != nil && callee != nil)
	if caller == nil || callee == nil {
		return
	}
	callee.send(&wamp.Register{Request: 1, Procedure: "p"})
	callee.drain()
	const n = 4
	var seen []int64
	take := func() {
		select {
		case m := <-callee.peer.Recv():
			if inv, ok := m.(*wamp.Invocation); ok && len(inv.Arguments) == 1 {
				k, _ := wamp.AsInt64(inv.Arguments[0])
				seen = append(seen, k)
			}
		default:
		}
	}
	for k := 1; k <= n; k++ {
		caller.send(&wamp.Call{Request: wamp.ID(10 + k), Procedure: "p", Arguments: wamp.List{int64(k)}})
		vQuiesce()
		switch vChoice("between-calls", 3) {
		case 1:
			take()
		case 2:
			take()
			vAdvance(int64(15) * 1000000)
		}
	}
	for i := 0; i < n+1; i++ {
		vAdvance(int64(1) * 1000000000)
		vQuiesce()
		take()
	}
	last := int64(0)
	for _, k := range seen {
		vAssert("invocations-arrive-in-call-order", k > last)
		last = k
	}
	refused := map[wamp.ID]int{}
	for _, m := range caller.drain() {
		e, ok := m.(*wamp.Error)
		vAssert("caller-sees-only-refusals", ok && e.Type == wamp.CALL && e.Error == wamp.ErrNetworkFailure)
		if ok {
			refused[e.Request]++
		}
	}
	for k := 1; k <= n; k++ {
		delivered := 0
		for _, s := range seen {
			if s == int64(k) {
				delivered++
			}
		}
		vAssert("each-call-delivered-or-refused-exactly-once", delivered+refused[wamp.ID(10+k)] == 1)
	}
	if len(seen) >= 2 {
		vCover("several-calls-delivered")
	}
	r.Close()
}
