package router

import "github.com/gammazero/nexus/v3/wamp"

// C07: a client that stops reading loses messages beyond its queue, and
// nobody else notices.

func vQueued(c *vClient) int { return len(c.peer.Recv()) }

func Harness_C07_StalledSubscriber() {
	q := 1 + vChoice("queue", 2)
	r := vNewRouter(&Config{RealmConfigs: []*RealmConfig{{URI: "realm1", AnonymousAuth: true}}})
	pub := vAttach(r, "realm1", nil, 64)
	good := vAttach(r, "realm1", nil, 64)
	stalled := vAttach(r, "realm1", nil, q)
	vAssert("attached", pub != nil && good != nil && stalled != nil)
	good.send(&wamp.Subscribe{Request: 1, Topic: "t"})
	good.drain()
	stalled.send(&wamp.Subscribe{Request: 1, Topic: "t"})
	stalled.drain() // reads SUBSCRIBED, then stops reading for good
	n := q + 1 + vChoice("extra", 2)
	for i := 0; i < n; i++ {
		pub.send(&wamp.Publish{Request: wamp.ID(10 + i), Topic: "t", Options: wamp.Dict{"acknowledge": true}, Arguments: wamp.List{i}})
	}
	vQuiesce()
	vAssert("stalled-client-buffers-at-most-its-queue", vQueued(stalled) <= q)
	// the healthy subscriber got everything, in order
	evs := good.drain()
	vAssert("healthy-subscriber-gets-all", len(evs) == n)
	for i, m := range evs {
		e, ok := m.(*wamp.Event)
		vAssert("healthy-subscriber-in-order", ok && len(e.Arguments) == 1 && e.Arguments[0] == any(i))
	}
	// the publisher got every acknowledgement, in order
	acks := pub.drain()
	vAssert("publisher-gets-all-acks", len(acks) == n)
	for i, m := range acks {
		p, ok := m.(*wamp.Published)
		vAssert("acks-in-order", ok && p.Request == wamp.ID(10+i))
	}
	vAssert("no-worker-stuck-sending", vBlockedSends() == 0)
	vBystanderServed(r, good)
	vCover("stalled-subscriber-checked")
}

func Harness_C07_StalledCallee() {
	r := vNewRouter(&Config{RealmConfigs: []*RealmConfig{{URI: "realm1", AnonymousAuth: true}}})
	caller := vAttach(r, "realm1", nil, 64)
	callee := vAttach(r, "realm1", nil, 1)
	vAssert("attached", caller != nil && callee != nil)
	callee.send(&wamp.Register{Request: 1, Procedure: "p"})
	callee.drain() // reads REGISTERED, then stops reading
	n := 2 + vChoice("calls", 2)
	for i := 0; i < n; i++ {
		caller.send(&wamp.Call{Request: wamp.ID(10 + i), Procedure: "p"})
	}
	vQuiesce()
	vAssert("stalled-callee-buffers-at-most-its-queue", vQueued(callee) <= 1)
	// calls that could not be delivered are answered with an error at once
	rep := caller.drain()
	vAssert("undeliverable-calls-answered", len(rep) == n-1)
	for i, m := range rep {
		e, ok := m.(*wamp.Error)
		vAssert("network-failure-error", ok && e.Type == wamp.CALL && e.Request == wamp.ID(11+i) && e.Error == wamp.ErrNetworkFailure)
	}
	vAssert("no-worker-stuck-sending", vBlockedSends() == 0)
	vBystanderServed(r, caller)
	vCover("stalled-callee-checked")
}

// a callee yielding to a blocked caller is held back for at most the
// result-retry period, then the call is cancelled
func Harness_C07_BlockedCallerResultRetry() {
	r := vNewRouter(&Config{RealmConfigs: []*RealmConfig{{URI: "realm1", AnonymousAuth: true}}})
	caller := vAttach(r, "realm1", nil, 1)
	callee := vAttach(r, "realm1", nil, 64)
	vAssert("attached", caller != nil && callee != nil)
	callee.send(&wamp.Register{Request: 1, Procedure: "p"})
	callee.drain()
	caller.send(&wamp.Call{Request: 10, Procedure: "p", Options: wamp.Dict{"receive_progress": true}})
	inv, n := vFindMsg[*wamp.Invocation](callee.drain())
	vAssert("invocation", n == 1)
	// the caller stops reading; the first progressive result fills its queue
	callee.send(&wamp.Yield{Request: inv.Request, Options: wamp.Dict{"progress": true}, Arguments: wamp.List{1}})
	vQuiesce()
	vAssert("first-result-queued", vQueued(caller) == 1)
	t0 := vNow()
	// the second result cannot be queued: the callee's handler retries
	callee.send(&wamp.Yield{Request: inv.Request, Options: wamp.Dict{"progress": true}, Arguments: wamp.List{2}})
	resumed := vBool("caller.resumes")
	if resumed {
		// the caller starts reading again after a while: both results arrive, in order
		vAdvance(int64(3) * 1000000)
		got := caller.drain()
		vAdvance(int64(100) * 1000000)
		got = append(got, caller.drain()...)
		vAssert("results-in-yield-order", len(got) == 2)
		if len(got) == 2 {
			r1, ok1 := got[0].(*wamp.Result)
			r2, ok2 := got[1].(*wamp.Result)
			vAssert("result-order", ok1 && ok2 && r1.Arguments[0] == any(1) && r2.Arguments[0] == any(2))
		}
		vCover("caller-resumed")
	} else {
		// the caller never reads: the retry ends after the bounded period
		vAdvance(int64(70) * 1000000000)
		vAssert("retry-period-bounded", vNow()-t0 <= int64(71)*1000000000)
		// the callee's handler is free again: a new request of the callee is answered
		callee.send(&wamp.Subscribe{Request: 99, Topic: "after"})
		_, ns := vFindMsg[*wamp.Subscribed](callee.drain())
		vAssert("callee-handler-released-after-retry-period", ns == 1)
		vCover("retry-gave-up(virtual-time)")
	}
	vAssert("no-worker-stuck-sending", vBlockedSends() == 0)
}

// requests, meta calls, a kill and a departure around a stalled session:
// every request is processed, no cycle of waiting workers
func vC07Mix(nOps int) {
	r := vNewRouter(&Config{RealmConfigs: []*RealmConfig{{URI: "realm1", AnonymousAuth: true, EnableMetaKill: true}}})
	a := vAttach(r, "realm1", nil, 64)
	b := vAttach(r, "realm1", nil, 64)
	stalled := vAttach(r, "realm1", nil, 1)
	vAssert("attached", a != nil && b != nil && stalled != nil)
	stalled.send(&wamp.Subscribe{Request: 1, Topic: "wamp.", Options: wamp.Dict{"match": "prefix"}})
	stalled.send(&wamp.Register{Request: 2, Procedure: "s.proc"})
	stalled.drain() // then never reads again
	b.send(&wamp.Register{Request: 1, Procedure: "b.proc"})
	b.drain()
	bGone := false
	for k := 0; k < nOps; k++ {
		req := wamp.ID(100 + k)
		switch vChoice("op", 8) {
		case 0:
			a.send(&wamp.Subscribe{Request: req, Topic: "x"})
		case 1:
			a.send(&wamp.Register{Request: req, Procedure: "a.proc"})
		case 2:
			a.send(&wamp.Call{Request: req, Procedure: "s.proc"})
		case 3:
			a.send(&wamp.Call{Request: req, Procedure: wamp.MetaProcSessionCount})
		case 4:
			a.send(&wamp.Call{Request: req, Procedure: wamp.MetaProcRegList})
		case 5:
			a.send(&wamp.Call{Request: req, Procedure: wamp.MetaProcSessionKill, Arguments: wamp.List{stalled.id}})
		case 6:
			if !bGone {
				b.send(&wamp.Goodbye{Reason: wamp.CloseRealm, Details: wamp.Dict{}})
				bGone = true
			}
		case 7:
			a.send(&wamp.Publish{Request: req, Topic: "x", Options: wamp.Dict{"acknowledge": true}})
		}
		a.drain()
	}
	vAssert("no-worker-stuck-sending", vBlockedSends() == 0)
	vBystanderServed(r, a)
	vCover("mix-done")
}

func Harness_C07_Mix_2() { vC07Mix(2) }
func Harness_C07_Mix_3() { vC07Mix(3) }
