package router

import (
	"github.com/gammazero/nexus/v3/transport"
	"github.com/gammazero/nexus/v3/wamp"
)

// C07: a client that stops reading loses messages beyond its queue, and
// nobody else notices.

func vQueued(c *vClient) int { return len(c.peer.Recv()) }

func Harness_C07_StalledSubscriber() {
	q := 1 + vChoice("queue", 2)
	r := vNewRouter(&Config{RealmConfigs: []*RealmConfig{{URI: "realm1", AnonymousAuth: true}}})
	pub := vAttach(r, "realm1", nil, 64)
	good := vAttach(r, "realm1", nil, 64)
	stalled := vAttach(r, "realm1", nil, q)
	vAssert("attached", pub != nil && good != nil && stalled != nil)
	good.send(&wamp.Subscribe{Request: 1, Topic: "t"})
	good.drain()
	stalled.send(&wamp.Subscribe{Request: 1, Topic: "t"})
	stalled.drain() // reads SUBSCRIBED, then stops reading for good
	n := q + 1 + vChoice("extra", 2)
	for i := 0; i < n; i++ {
		pub.send(&wamp.Publish{Request: wamp.ID(10 + i), Topic: "t", Options: wamp.Dict{"acknowledge": true}, Arguments: wamp.List{i}})
	}
	vQuiesce()
	vAssert("stalled-client-buffers-at-most-its-queue", vQueued(stalled) <= q)
	// the healthy subscriber got everything, in order
	evs := good.drain()
	vAssert("healthy-subscriber-gets-all", len(evs) == n)
	for i, m := range evs {
		e, ok := m.(*wamp.Event)
		vAssert("healthy-subscriber-in-order", ok && len(e.Arguments) == 1 && e.Arguments[0] == any(i))
	}
	// the publisher got every acknowledgement, in order
	acks := pub.drain()
	vAssert("publisher-gets-all-acks", len(acks) == n)
	for i, m := range acks {
		p, ok := m.(*wamp.Published)
		vAssert("acks-in-order", ok && p.Request == wamp.ID(10+i))
	}
	vAssert("no-worker-stuck-sending", vBlockedSends() == 0)
	vBystanderServed(r, good)
	vCover("stalled-subscriber-checked")
}

func Harness_C07_StalledCallee() {
	r := vNewRouter(&Config{RealmConfigs: []*RealmConfig{{URI: "realm1", AnonymousAuth: true}}})
	caller := vAttach(r, "realm1", nil, 64)
	callee := vAttach(r, "realm1", nil, 1)
	vAssert("attached", caller != nil && callee != nil)
	callee.send(&wamp.Register{Request: 1, Procedure: "p"})
	callee.drain() // reads REGISTERED, then stops reading
	n := 2 + vChoice("calls", 2)
	for i := 0; i < n; i++ {
		caller.send(&wamp.Call{Request: wamp.ID(10 + i), Procedure: "p"})
	}
	vQuiesce()
	vAssert("stalled-callee-buffers-at-most-its-queue", vQueued(callee) <= 1)
	// calls that could not be delivered are answered with an error at once
	rep := caller.drain()
	vAssert("undeliverable-calls-answered", len(rep) == n-1)
	for i, m := range rep {
		e, ok := m.(*wamp.Error)
		vAssert("network-failure-error", ok && e.Type == wamp.CALL && e.Request == wamp.ID(11+i) && e.Error == wamp.ErrNetworkFailure)
	}
	vAssert("no-worker-stuck-sending", vBlockedSends() == 0)
	vBystanderServed(r, caller)
	vCover("stalled-callee-checked")
}

// a callee yielding to a blocked caller is held back for at most the
// result-retry period, then the call is cancelled
func Harness_C07_BlockedCallerResultRetry() {
	r := vNewRouter(&Config{RealmConfigs: []*RealmConfig{{URI: "realm1", AnonymousAuth: true}}})
	caller := vAttach(r, "realm1", nil, 1)
	callee := vAttach(r, "realm1", nil, 64)
	vAssert("attached", caller != nil && callee != nil)
	callee.send(&wamp.Register{Request: 1, Procedure: "p"})
	callee.drain()
	caller.send(&wamp.Call{Request: 10, Procedure: "p", Options: wamp.Dict{"receive_progress": true}})
	inv, n := vFindMsg[*wamp.Invocation](callee.drain())
	vAssert("invocation", n == 1)
	// the caller stops reading; the first progressive result fills its queue
	callee.send(&wamp.Yield{Request: inv.Request, Options: wamp.Dict{"progress": true}, Arguments: wamp.List{1}})
	vQuiesce()
	vAssert("first-result-queued", vQueued(caller) == 1)
	t0 := vNow()
	// the second result cannot be queued: the callee's handler retries
	callee.send(&wamp.Yield{Request: inv.Request, Options: wamp.Dict{"progress": true}, Arguments: wamp.List{2}})
	resumed := vBool("caller.resumes")
	if resumed {
		// the caller starts reading again after a while: both results arrive, in order
		vAdvance(int64(3) * 1000000)
		got := caller.drain()
		vAdvance(int64(100) * 1000000)
		got = append(got, caller.drain()...)
		vAssert("results-in-yield-order", len(got) == 2)
		if len(got) == 2 {
			r1, ok1 := got[0].(*wamp.Result)
			r2, ok2 := got[1].(*wamp.Result)
			vAssert("result-order", ok1 && ok2 && r1.Arguments[0] == any(1) && r2.Arguments[0] == any(2))
		}
		vCover("caller-resumed")
	} else {
		// the caller never reads: the retry ends after the bounded period
		vAdvance(int64(70) * 1000000000)
		vAssert("retry-period-bounded", vNow()-t0 <= int64(71)*1000000000)
		// the callee's handler is free again: a new request of the callee is answered
		callee.send(&wamp.Subscribe{Request: 99, Topic: "after"})
		_, ns := vFindMsg[*wamp.Subscribed](callee.drain())
		vAssert("callee-handler-released-after-retry-period", ns == 1)
		vCover("retry-gave-up(virtual-time)")
	}
	vAssert("no-worker-stuck-sending", vBlockedSends() == 0)
}

// requests, meta calls, a kill and a departure around a stalled session:
// every request is processed, no cycle of waiting workers
func vC07Mix(nOps int) {
	r := vNewRouter(&Config{RealmConfigs: []*RealmConfig{{URI: "realm1", AnonymousAuth: true, EnableMetaKill: true}}})
	a := vAttach(r, "realm1", nil, 64)
	b := vAttach(r, "realm1", nil, 64)
	stalled := vAttach(r, "realm1", nil, 1)
	vAssert("attached", a != nil && b != nil && stalled != nil)
	stalled.send(&wamp.Subscribe{Request: 1, Topic: "wamp.", Options: wamp.Dict{"match": "prefix"}})
	stalled.send(&wamp.Register{Request: 2, Procedure: "s.proc"})
	stalled.drain() // then never reads again
	b.send(&wamp.Register{Request: 1, Procedure: "b.proc"})
	b.drain()
	bGone := false
	for k := 0; k < nOps; k++ {
		req := wamp.ID(100 + k)
		switch vChoice("op", 8) {
		case 0:
			a.send(&wamp.Subscribe{Request: req, Topic: "x"})
		case 1:
			a.send(&wamp.Register{Request: req, Procedure: "a.proc"})
		case 2:
			a.send(&wamp.Call{Request: req, Procedure: "s.proc"})
		case 3:
			a.send(&wamp.Call{Request: req, Procedure: wamp.MetaProcSessionCount})
		case 4:
			a.send(&wamp.Call{Request: req, Procedure: wamp.MetaProcRegList})
		case 5:
			a.send(&wamp.Call{Request: req, Procedure: wamp.MetaProcSessionKill, Arguments: wamp.List{stalled.id}})
		case 6:
			if !bGone {
				b.send(&wamp.Goodbye{Reason: wamp.CloseRealm, Details: wamp.Dict{}})
				bGone = true
			}
		case 7:
			a.send(&wamp.Publish{Request: req, Topic: "x", Options: wamp.Dict{"acknowledge": true}})
		}
		a.drain()
	}
	vAssert("no-worker-stuck-sending", vBlockedSends() == 0)
	vBystanderServed(r, a)
	vCover("mix-done")
}

func Harness_C07_Mix_2() { vC07Mix(2) }
func Harness_C07_Mix_3() { vC07Mix(3) }

// A callee that stopped reading with a full queue: every call and cancel of
// the other sessions is still answered, once (also C02 / C13: kill degrades
// to skip when the callee cannot be interrupted; a refused call leaves nothing
// behind that could produce a second reply).
func vC07StalledCalleeCalls(nEvents int) {
	d := newDealer(vNopLog{}, false, true, false)
	caller := vNewSess(21, nil, vFeat("caller", map[string]bool{"call_canceling": true}), 32)
	callee := vNewSess(22, nil, vFeat("callee", map[string]bool{"call_canceling": true}), 1)
	d.register(callee.s, &wamp.Register{Request: 1, Procedure: "p.q"})
	vSyncDealer(d)
	vAssert("registered", len(callee.vDrain()) == 1)
	// from here on the callee does not read: its queue holds at most one message
	type want struct {
		req wamp.ID
		uri wamp.URI
	}
	var wants []want
	pending := map[wamp.ID]bool{}
	canceled := map[wamp.ID]bool{}
	queueFull := false
	calleeGone := false
	next := wamp.ID(10)
	var lastReq wamp.ID
	for step := 0; step < nEvents; step++ {
		switch vChoice("event", 4) {
		case 0: // a new call
			next++
			req := next
			lastReq = req
			d.call(caller.s, &wamp.Call{Request: req, Procedure: "p.q"})
			switch {
			case calleeGone:
				wants = append(wants, want{req, wamp.ErrNoSuchProcedure})
			case queueFull:
				wants = append(wants, want{req, wamp.ErrNetworkFailure})
			default:
				queueFull = true
				pending[req] = true
			}
		case 1: // CANCEL of the most recent call
			if lastReq == 0 {
				continue
			}
			mode := []string{wamp.CancelModeSkip, wamp.CancelModeKillNoWait, wamp.CancelModeKill}[vChoice("mode", 3)]
			d.cancel(caller.s, &wamp.Cancel{Request: lastReq, Options: wamp.Dict{"mode": mode}})
			if pending[lastReq] && !canceled[lastReq] {
				// the INTERRUPT cannot be queued (the INVOCATION still fills the
				// queue): every mode ends the call for the caller now
				canceled[lastReq] = true
				delete(pending, lastReq)
				wants = append(wants, want{lastReq, wamp.ErrCanceled})
			}
		case 2: // the stalled callee is dropped
			if calleeGone {
				continue
			}
			calleeGone = true
			d.removeSession(callee.s)
			for req := wamp.ID(11); req <= next; req++ {
				if pending[req] {
					delete(pending, req)
					wants = append(wants, want{req, wamp.ErrCanceled})
				}
			}
		case 3: // bystander traffic
			d.cancel(caller.s, &wamp.Cancel{Request: 9999, Options: wamp.Dict{}})
		}
		vSyncDealer(d)
		vAssert("stalled-callee-buffers-at-most-its-queue", len(callee.client.Recv()) <= 1)
	}
	got := caller.vDrain()
	vAssert("every-call-and-cancel-answered-exactly-once", len(got) == len(wants))
	for i, m := range got {
		if i >= len(wants) {
			break
		}
		e, ok := m.(*wamp.Error)
		vAssert("error-reply", ok)
		if ok {
			vAssert("reply-in-order-with-reason", e.Type == wamp.CALL && e.Request == wants[i].req && e.Error == wants[i].uri)
		}
	}
	vAssert("no-state-for-answered-calls", len(d.calls) == len(pending) && len(d.invocations) == len(pending) && len(d.invocationByCall) == len(pending))
	if len(wants) > 1 {
		vCover("several-answered")
	}
	vCover("stalled-callee-calls-done")
}

func Harness_C07_StalledCalleeCalls_3() { vC07StalledCalleeCalls(3) }
func Harness_C07_StalledCalleeCalls_4() { vC07StalledCalleeCalls(4) }

// Meta-API calls concurrent with registrations, unregistrations, subscriptions
// and departures: under every schedule within the delay bound no cycle of
// waiting workers forms (engine-level deadlock detection) and every request
// is answered.
func vC07ConcurrentMeta(budget int, metas []wamp.URI, ops []int) {
	r := vNewRouter(&Config{RealmConfigs: []*RealmConfig{{URI: "realm1", AnonymousAuth: true, EnableMetaKill: true}}})
	a := vAttach(r, "realm1", nil, 64)
	b := vAttach(r, "realm1", nil, 64)
	obs := vAttach(r, "realm1", nil, 64)
	victim := vAttach(r, "realm1", nil, 64)
	vAssert("attached", a != nil && b != nil && obs != nil && victim != nil)
	obs.send(&wamp.Subscribe{Request: 1, Topic: "wamp.", Options: wamp.Dict{"match": "prefix"}})
	obs.drain()
	b.send(&wamp.Register{Request: 1, Procedure: "b.proc"})
	b.send(&wamp.Subscribe{Request: 2, Topic: "b.topic"})
	bm := b.drain()
	rg, _ := vFindMsg[*wamp.Registered](bm)
	sd, _ := vFindMsg[*wamp.Subscribed](bm)
	vAssert("b-setup", rg != nil && sd != nil)
	metaProc := metas[vChoice("meta", len(metas))]
	bkind := ops[vChoice("b.op", len(ops))]
	vSetPreempt(budget)
	ad, bd := make(chan struct{}), make(chan struct{})
	go func() {
		defer close(ad)
		a.send(&wamp.Call{Request: 10, Procedure: metaProc})
	}()
	go func() {
		defer close(bd)
		switch bkind {
		case 0:
			b.send(&wamp.Unregister{Request: 20, Registration: rg.Registration})
		case 1:
			b.send(&wamp.Register{Request: 20, Procedure: "b.proc2"})
		case 2:
			b.send(&wamp.Unsubscribe{Request: 20, Subscription: sd.Subscription})
		case 3:
			b.send(&wamp.Goodbye{Reason: wamp.CloseRealm, Details: wamp.Dict{}})
		case 4:
			b.send(&wamp.Call{Request: 20, Procedure: wamp.MetaProcSessionKill, Arguments: wamp.List{victim.id}})
		}
	}()
	<-ad
	<-bd
	vSetPreempt(0)
	am := a.drain()
	nres := 0
	for _, m := range am {
		if res, ok := m.(*wamp.Result); ok && (res.Request == 10 || res.Request == 11) {
			nres++
		}
	}
	vAssert("meta-call-answered", nres == 1)
	bm = b.drain()
	switch bkind {
	case 0:
		_, n := vFindMsg[*wamp.Unregistered](bm)
		vAssert("unregister-answered", n == 1)
	case 1:
		_, n := vFindMsg[*wamp.Registered](bm)
		vAssert("register-answered", n == 1)
	case 2:
		_, n := vFindMsg[*wamp.Unsubscribed](bm)
		vAssert("unsubscribe-answered", n == 1)
	case 3:
		_, n := vFindMsg[*wamp.Goodbye](bm)
		vAssert("goodbye-answered", n == 1)
	case 4:
		_, n := vFindMsg[*wamp.Result](bm)
		vAssert("kill-answered", n == 1)
		_, ng := vFindMsg[*wamp.Goodbye](victim.drain())
		vAssert("victim-told-goodbye", ng == 1)
	}
	vAssert("no-worker-stuck-sending", vBlockedSends() == 0)
	vBystanderServed(r, obs)
	vCover("concurrent-meta-done")
}

var vC07Metas = []wamp.URI{wamp.MetaProcSessionCount, wamp.MetaProcRegList}

func Harness_C07_ConcurrentMeta_1() { vC07ConcurrentMeta(1, vC07Metas, []int{0, 1, 2, 3, 4}) }
func Harness_C07_ConcurrentMeta_2() { vC07ConcurrentMeta(2, vC07Metas, []int{0, 1, 2, 3, 4}) }
func Harness_C07_ConcurrentMeta_3() { vC07ConcurrentMeta(3, vC07Metas, []int{0, 1, 2, 3, 4}) }

// quick tier: two deviations, the requests that make the dealer announce meta events
func Harness_C07_ConcurrentMetaDealer_2() {
	vC07ConcurrentMeta(2, []wamp.URI{wamp.MetaProcSessionCount}, []int{0, 3})
}

// The wait cycle the dealer's code comments warn about, forced
// deterministically with gate actions: the meta session's handler is waiting to
// hand a meta-procedure YIELD to the dealer while the dealer runs a request
// that announces meta events. The announcement must not be made from inside
// the dealer goroutine.
func Harness_C07_DealerMetaHandoff() {
	r := vNewRouter(&Config{RealmConfigs: []*RealmConfig{{URI: "realm1", AnonymousAuth: true}}})
	a := vAttach(r, "realm1", nil, 64)
	b := vAttach(r, "realm1", nil, 64)
	vAssert("attached", a != nil && b != nil)
	rl := r.realms["realm1"]
	b.send(&wamp.Register{Request: 1, Procedure: "b.proc"})
	rg, _ := vFindMsg[*wamp.Registered](b.drain())
	vAssert("b-registered", rg != nil)
	if rg == nil {
		return
	}
	op := vChoice("b.op", 3)
	// 1. park the realm goroutine: the meta procedure will wait for it
	realmGate := make(chan struct{})
	rl.actionChan <- func() { <-realmGate }
	a.send(&wamp.Call{Request: 10, Procedure: wamp.MetaProcSessionCount})
	vQuiesce()
	// 2. park the dealer, then queue b's request behind the gate
	dealerGate := make(chan struct{})
	rl.dealer.actionChan <- func() { <-dealerGate }
	sent := make(chan struct{})
	go func() {
		defer close(sent)
		switch op {
		case 0:
			b.send(&wamp.Unregister{Request: 20, Registration: rg.Registration})
		case 1:
			b.send(&wamp.Register{Request: 20, Procedure: "b.proc2"})
		case 2:
			b.send(&wamp.Goodbye{Reason: wamp.CloseRealm, Details: wamp.Dict{}})
		}
	}()
	vQuiesce()
	// 3. the meta procedure finishes: its YIELD now waits for the dealer, behind b's request
	close(realmGate)
	vQuiesce()
	// 4. the dealer resumes
	close(dealerGate)
	<-sent
	res, n := vFindMsg[*wamp.Result](a.drain())
	vAssert("meta-call-answered-despite-concurrent-request", n == 1 && res != nil && res.Request == 10)
	bm := b.drain()
	switch op {
	case 0:
		_, k := vFindMsg[*wamp.Unregistered](bm)
		vAssert("unregister-answered", k == 1)
	case 1:
		_, k := vFindMsg[*wamp.Registered](bm)
		vAssert("register-answered", k == 1)
	case 2:
		_, k := vFindMsg[*wamp.Goodbye](bm)
		vAssert("goodbye-answered", k == 1)
	}
	vAssert("no-worker-stuck-sending", vBlockedSends() == 0)
	vBystanderServed(r, a)
	vCover("dealer-meta-handoff-done")
}

// The stalled session is the one making the requests: the replies to its own
// requests (PUBLISHED, SUBSCRIBED, REGISTERED, ERROR, RESULT) beyond its queue
// are lost, its handler never waits for it, and when it then goes away its
// departure is processed like anybody's.
func Harness_C07_StalledRequester() {
	q := 1 + vChoice("queue", 2)
	r := vNewRouter(&Config{RealmConfigs: []*RealmConfig{{URI: "realm1", AnonymousAuth: true}}})
	a := vAttach(r, "realm1", nil, 64)
	s := vAttach(r, "realm1", nil, q)
	vAssert("attached", a != nil && s != nil)
	if a == nil || s == nil {
		return
	}
	// s never reads. Its first request registers a procedure (REGISTERED takes a queue slot)
	s.send(&wamp.Register{Request: 1, Procedure: "s.proc"})
	n := q + vChoice("more-requests-than-the-queue-holds", 2)
	metaCalled := 0 // the meta session serves these one after the other
	for k := 0; k < n; k++ {
		req := wamp.ID(10 + k)
		switch vChoice("request", 5) {
		case 0:
			s.send(&wamp.Publish{Request: req, Topic: "t", Options: wamp.Dict{"acknowledge": true}})
		case 1:
			s.send(&wamp.Subscribe{Request: req, Topic: "t"})
		case 2:
			s.send(&wamp.Call{Request: req, Procedure: "no.such.proc"})
		case 3:
			s.send(&wamp.Call{Request: req, Procedure: wamp.MetaProcSessionCount})
			metaCalled++
		case 4:
			s.send(&wamp.Unsubscribe{Request: req, Subscription: 12345})
		}
		vQuiesce()
	}
	hadMeta := metaCalled > 0
	if hadMeta && !vSymbolic() {
		// (a native run cannot skip over minutes)
		return
	}
	for ; metaCalled > 0; metaCalled-- {
		// the stated exception: the callee of that call (the meta session) is
		// held back for at most the result-retry period (retries with doubling
		// delays: the last one ends 65.5 s after the first)
		vAdvance(int64(70) * 1000000000)
		vQuiesce()
	}
	vAssert("stalled-requester-buffers-at-most-its-queue", vQueued(s) <= q)
	vAssert("no-worker-stuck-sending", vBlockedSends() == 0)
	// it goes away, or keeps going
	way := vChoice("then", 3)
	switch way {
	case 0:
		s.peer.Close()
	case 1:
		s.send(&wamp.Goodbye{Reason: wamp.CloseRealm, Details: wamp.Dict{}})
	case 2:
		// still there: one more request is still processed (a sees its effect)
		a.send(&wamp.Subscribe{Request: 5, Topic: "late.topic"})
		a.drain()
		s.send(&wamp.Publish{Request: 50, Topic: "late.topic"})
		_, nev := vFindMsg[*wamp.Event](a.drain())
		vAssert("later-request-of-the-stalled-session-is-processed", nev == 1)
	}
	if way < 2 {
		vQuiesce() // the departure has been processed before a asks
		// its departure was processed: the session is not counted and its procedure is free again
		a.send(&wamp.Call{Request: 6, Procedure: wamp.MetaProcSessionCount})
		res, nres := vFindMsg[*wamp.Result](a.drain())
		vAssert("session-count-answered", nres == 1 && len(res.Arguments) == 1)
		if nres == 1 && len(res.Arguments) == 1 {
			cnt, _ := wamp.AsInt64(res.Arguments[0])
			vAssert("departed-session-not-counted", cnt == 1)
		}
		a.send(&wamp.Register{Request: 7, Procedure: "s.proc"})
		_, nreg := vFindMsg[*wamp.Registered](a.drain())
		vAssert("departed-sessions-procedure-is-free", nreg == 1)
		if !hadMeta {
			vCover("stalled-requester-departed")
		}
	}
	vBystanderServed(r, a)
	if hadMeta {
		vCover("stalled-requester-checked-after-the-retry-period(virtual-time)")
	} else {
		vCover("stalled-requester-checked")
	}
}

// a peer whose Close takes as long as the harness says (a network peer
// waiting for its writer to give up on a remote end that does not read)
type vSlowClosePeer struct {
	wamp.Peer
	gate    chan struct{}
	closing bool
}

func (p *vSlowClosePeer) IsLocal() bool { return false }
func (p *vSlowClosePeer) Close() {
	p.closing = true
	<-p.gate
	p.Peer.Close()
}

// A session whose transport is slow to close ends in any way: while its peer
// is closing, everybody else is served - joins, requests, the meta API.
func Harness_C07_SlowClosingPeer() {
	r := vNewRouter(&Config{RealmConfigs: []*RealmConfig{{URI: "realm1", AnonymousAuth: true, EnableMetaKill: true}}})
	a := vAttach(r, "realm1", nil, 64)
	vAssert("attached", a != nil)
	if a == nil {
		return
	}
	c, rp := transport.LinkedPeersQSize(16)
	slow := &vSlowClosePeer{Peer: rp, gate: make(chan struct{})}
	go func() {
		c.Send() <- &wamp.Hello{Realm: "realm1", Details: wamp.Dict{"roles": vAllRoles, "authid": "slow"}}
	}()
	err := r.AttachClient(slow, nil)
	vAssert("slow-peer-attached", err == nil)
	if err != nil {
		return
	}
	w, ok := (<-c.Recv()).(*wamp.Welcome)
	vAssert("welcome", ok)
	if !ok {
		return
	}
	s := &vClient{peer: c, id: w.ID}
	s.send(&wamp.Register{Request: 1, Procedure: "s.proc"})
	s.drain()
	switch vChoice("way", 4) {
	case 0:
		s.send(&wamp.Goodbye{Reason: wamp.CloseRealm, Details: wamp.Dict{}})
	case 1:
		c.Close() // transport lost
	case 2:
		a.send(&wamp.Call{Request: 20, Procedure: wamp.MetaProcSessionKill, Arguments: wamp.List{s.id}})
	case 3:
		s.send(&wamp.Welcome{ID: 1, Details: wamp.Dict{}}) // protocol violation
	}
	vQuiesce()
	a.drain()
	vAssert("peer-is-being-closed", slow.closing)
	// meanwhile: the meta API answers, requests are served, a client joins
	a.send(&wamp.Call{Request: 30, Procedure: wamp.MetaProcSessionCount})
	_, nres := vFindMsg[*wamp.Result](a.drain())
	vAssert("meta-api-answers-while-a-peer-is-closing", nres == 1)
	a.send(&wamp.Register{Request: 31, Procedure: "s.proc"})
	_, nreg := vFindMsg[*wamp.Registered](a.drain())
	vAssert("departed-sessions-procedure-is-free-while-its-peer-is-closing", nreg == 1)
	joined := make(chan *vClient, 1)
	go func() { joined <- vAttach(r, "realm1", nil, 16) }()
	vQuiesce()
	select {
	case b := <-joined:
		vAssert("join-accepted", b != nil)
	default:
		vAssert("a-client-can-join-while-a-peer-is-closing", false)
	}
	close(slow.gate)
	vQuiesce()
	r.Close()
	vCover("slow-closing-peer-done")
}
