package router

import "github.com/gammazero/nexus/v3/wamp"

// C13: timeout forwarding and "never earlier than the timeout" for symbolic
// timeout values of every numeric carrier type.

func Harness_C13_TimeoutForwarding() {
	d := newDealer(vNopLog{}, false, true, false)
	calleeTimeoutFeat := vBool("callee.call_timeout")
	fwd := vChoice("forward_timeout", 3) // absent, false, true
	callee := vNewSess(22, nil, vFeat("callee", map[string]bool{"call_timeout": calleeTimeoutFeat, "call_canceling": true}), 32)
	caller := vNewSess(21, nil, vFeat("caller", map[string]bool{"call_canceling": true}), 32)
	ropts := wamp.Dict{}
	if fwd == 1 {
		ropts["forward_timeout"] = false
	} else if fwd == 2 {
		ropts["forward_timeout"] = true
	}
	d.register(callee.s, &wamp.Register{Request: 1, Procedure: "p.q", Options: ropts})
	vSyncDealer(d)
	callee.vDrain()
	ms := vInt64("timeout.ms")
	vAssume(vAnd(ms >= 1, ms <= 1<<40)) // up to ~34 years; larger values: see Harness_C13_TimeoutArithmetic
	var carrier any
	switch vChoice("timeout.type", 4) {
	case 0:
		carrier = ms
	case 1:
		carrier = uint64(ms)
	case 2:
		carrier = int(ms)
	case 3:
		carrier = wamp.ID(ms)
	}
	t0 := vNow()
	d.call(caller.s, &wamp.Call{Request: 5, Procedure: "p.q", Options: wamp.Dict{"timeout": carrier}})
	vSyncDealer(d)
	inv, n := vFindMsg[*wamp.Invocation](callee.vDrain())
	vAssert("invocation-sent", n == 1)
	if n != 1 {
		return
	}
	forwarded := calleeTimeoutFeat && fwd == 2
	tv, has := inv.Details["timeout"]
	vAssert("timeout-forwarded-iff-callee-handles-it", has == forwarded)
	if forwarded {
		vAssert("forwarded-value", tv == any(ms))
		vAssert("no-router-timer-when-forwarded", vPendingTimers() == 0)
		vCover("timeout-forwarded")
		return
	}
	vAssert("router-timer-started", vPendingTimers() == 1)
	// nothing happens before the timer
	vAssert("nothing-before-expiry", len(caller.vDrain()) == 0)
	fired := vFireTimer()
	vSyncDealer(d)
	vAssert("timer-fires", fired)
	vAssert("never-earlier-than-timeout", vNow() >= t0+ms*1000000)
	e, ne := vFindMsg[*wamp.Error](caller.vDrain())
	vAssert("timeout-error-once", ne == 1 && e != nil && e.Error == wamp.ErrTimeout && e.Request == 5 && e.Type == wamp.CALL)
	_, ni := vFindMsg[*wamp.Interrupt](callee.vDrain())
	vAssert("interrupt-as-killnowait", ni == 1)
	// never after the call already completed: a late YIELD changes nothing
	d.yield(callee.s, &wamp.Yield{Request: inv.Request})
	vSyncDealer(d)
	vAssert("nothing-after-timeout", len(caller.vDrain()) == 0)
	vCover("router-timeout-fired(virtual-time)")
}

// the millisecond -> duration conversion for every positive 63-bit timeout
func Harness_C13_TimeoutArithmetic() {
	d := newDealer(vNopLog{}, false, true, false)
	callee := vNewSess(22, nil, vFeat("callee", map[string]bool{"call_canceling": true}), 32)
	caller := vNewSess(21, nil, vFeat("caller", map[string]bool{"call_canceling": true}), 32)
	d.register(callee.s, &wamp.Register{Request: 1, Procedure: "p.q"})
	vSyncDealer(d)
	callee.vDrain()
	ms := vInt64("timeout.ms")
	vAssume(ms >= 1)
	t0 := vNow()
	d.call(caller.s, &wamp.Call{Request: 5, Procedure: "p.q", Options: wamp.Dict{"timeout": ms}})
	vSyncDealer(d)
	callee.vDrain()
	if !vFireTimer() {
		return
	}
	vSyncDealer(d)
	elapsed := vNow() - t0
	if _, ne := vFindMsg[*wamp.Error](caller.vDrain()); ne == 1 {
		// the call was ended by the router: then at least `ms` milliseconds have
		// passed (timeouts beyond what a time.Duration can hold, ~292 years, may
		// be shortened; the claim is made up to ~146 years). Compared without overflow.
		// (half of the Duration range, so that now+timeout does not saturate)
		// first the natively observable case: ended within 3 s although more was asked for
		vAssert("no-timeout-within-3s-unless-asked", vImplies(elapsed < 3000000000, ms <= 3000))
		const maxMs = int64(4611686018427)
		vAssert("never-earlier-than-timeout", elapsed/1000000 >= vIteInt64(ms > maxMs, maxMs, ms))
		vCover("timeout-observed(virtual-time)")
	}
}

// a shared registration whose callees differ in call_timeout support: the
// timeout is handed over only to a callee that can handle it; every other
// call is timed by the router
func Harness_C13_TimeoutSharedRegistration() {
	d := newDealer(vNopLog{}, false, true, false)
	caller := vNewSess(21, nil, vFeat("caller", map[string]bool{"call_canceling": true}), 32)
	var feat, opt [2]bool
	var callee [2]*vSess
	for k := 0; k < 2; k++ {
		feat[k] = vBool("callee.call_timeout")
		opt[k] = vBool("register.forward_timeout")
		callee[k] = vNewSess(wamp.ID(22+k), nil, vFeat("callee", map[string]bool{"call_timeout": feat[k], "call_canceling": true, "shared_registration": true}), 32)
		d.register(callee[k].s, &wamp.Register{Request: 1, Procedure: "p.q", Options: wamp.Dict{"invoke": "roundrobin", "forward_timeout": opt[k]}})
		vSyncDealer(d)
		_, n := vFindMsg[*wamp.Registered](callee[k].vDrain())
		vAssert("registered", n == 1)
	}
	t0 := vNow()
	routerTimed := 0
	var inv [2]*wamp.Invocation
	var fwd [2]bool
	for k := 0; k < 2; k++ {
		d.call(caller.s, &wamp.Call{Request: wamp.ID(5 + k), Procedure: "p.q", Options: wamp.Dict{"timeout": 500}})
		vSyncDealer(d)
		iv, n := vFindMsg[*wamp.Invocation](callee[k].vDrain())
		vAssert("round-robin-invocation", n == 1)
		if n != 1 {
			return
		}
		inv[k] = iv
		_, fwd[k] = iv.Details["timeout"]
		vAssert("timeout-forwarded-only-to-a-callee-that-handles-it", vImplies(fwd[k], feat[k] && (opt[0] || opt[1])))
		if opt[0] == opt[1] {
			vAssert("timeout-forwarded-iff-requested-and-supported", fwd[k] == (feat[k] && opt[k]))
		}
		if !fwd[k] {
			routerTimed++
		}
	}
	if vSymbolic() { // the timer census exists only in the engine
		vAssert("router-times-every-call-it-did-not-hand-over", vPendingTimers() == routerTimed)
	}
	vAssert("nothing-before-expiry", len(caller.vDrain()) == 0)
	vAdvance(600 * 1000000)
	vSyncDealer(d)
	got := caller.vDrain()
	vAssert("one-timeout-error-per-router-timed-call", len(got) == routerTimed)
	for _, m := range got {
		e, ok := m.(*wamp.Error)
		vAssert("timeout-error", ok && e.Error == wamp.ErrTimeout && e.Type == wamp.CALL && (e.Request == 5 || e.Request == 6))
		if ok && (e.Request == 5 || e.Request == 6) {
			vAssert("timeout-only-for-router-timed-call", !fwd[e.Request-5])
		}
	}
	if routerTimed > 0 {
		vAssert("never-earlier-than-timeout", vNow() >= t0+500*1000000)
	}
	for k := 0; k < 2; k++ {
		_, ni := vFindMsg[*wamp.Interrupt](callee[k].vDrain())
		vAssert("interrupt-iff-router-timed-out", (ni == 1) == !fwd[k] && ni <= 1)
	}
	if routerTimed == 1 {
		vCover("mixed-callees")
	}
	vCover("shared-timeout-checked")
}

// progressive call invocations: later chunks of the same call do not postpone
// the router-side timeout that came with the first chunk
func Harness_C13_TimeoutProgressiveInvocation() {
	d := newDealer(vNopLog{}, false, true, false)
	caller := vNewSess(21, nil, vFeat("caller", map[string]bool{"call_canceling": true, "progressive_call_invocations": true}), 32)
	callee := vNewSess(22, nil, vFeat("callee", map[string]bool{"call_canceling": true, "progressive_call_invocations": true}), 32)
	d.register(callee.s, &wamp.Register{Request: 1, Procedure: "p.q"})
	vSyncDealer(d)
	callee.vDrain()
	t0 := vNow()
	d.call(caller.s, &wamp.Call{Request: 5, Procedure: "p.q", Options: wamp.Dict{"progress": true, "timeout": 1000}, Arguments: wamp.List{1}})
	vSyncDealer(d)
	_, n := vFindMsg[*wamp.Invocation](callee.vDrain())
	vAssert("first-chunk-invoked", n == 1)
	nChunks := 1 + vChoice("later-chunks", 2)
	for i := 0; i < nChunks; i++ {
		vAdvance(300 * 1000000)
		vSyncDealer(d)
		vAssert("no-timeout-yet", len(caller.vDrain()) == 0)
		d.call(caller.s, &wamp.Call{Request: 5, Procedure: "p.q", Options: wamp.Dict{"progress": true}, Arguments: wamp.List{2 + i}})
		vSyncDealer(d)
		_, n := vFindMsg[*wamp.Invocation](callee.vDrain())
		vAssert("later-chunk-invoked", n == 1)
	}
	// the callee never answers: the router ends the call 1000 ms after the first chunk
	vAdvance(int64(1000-300*nChunks+50) * 1000000)
	vSyncDealer(d)
	got := caller.vDrain()
	e, ne := vFindMsg[*wamp.Error](got)
	vAssert("timed-out-when-the-timeout-of-the-call-expired", ne == 1 && e != nil && e.Error == wamp.ErrTimeout && e.Request == 5)
	vAssert("not-early", vNow()-t0 >= 1000*1000000)
	_, ni := vFindMsg[*wamp.Interrupt](callee.vDrain())
	vAssert("callee-interrupted-once", ni == 1)
	// and nothing more later
	vAdvance(2000 * 1000000)
	vSyncDealer(d)
	vAssert("nothing-after-the-timeout", len(caller.vDrain()) == 0)
	vCover("progressive-invocation-timeout(virtual-time)")
}

// "never after the call already completed": the callee has answered finally,
// but the call's bookkeeping is kept a little longer - the RESULT is being
// retried towards a caller whose queue is full, or the caller's progressive
// call invocation has not sent its last chunk yet. The timeout of the call
// expires in that window: no INTERRUPT, no timeout error, the result stands.
//
//verif:virtual-clock
func Harness_C13_NoTimeoutAfterFinalYield() {
	r := vNewRouter(&Config{RealmConfigs: []*RealmConfig{{URI: "realm1", AnonymousAuth: true}}})
	callee := vAttach(r, "realm1", nil, 64)
	vAssert("callee-attached", callee != nil)
	if callee == nil {
		return
	}
	callee.send(&wamp.Register{Request: 1, Procedure: "p"})
	callee.drain()
	if vBool("caller-queue-full-at-the-final-yield") {
		caller := vAttach(r, "realm1", nil, 1)
		vAssert("caller-attached", caller != nil)
		if caller == nil {
			return
		}
		caller.send(&wamp.Call{Request: 10, Procedure: "p", Options: wamp.Dict{"receive_progress": true, "timeout": int64(2000)}})
		inv, n := vFindMsg[*wamp.Invocation](callee.drain())
		vAssert("invocation", n == 1)
		if n != 1 {
			return
		}
		callee.send(&wamp.Yield{Request: inv.Request, Options: wamp.Dict{"progress": true}, Arguments: wamp.List{1}})
		vQuiesce()
		callee.send(&wamp.Yield{Request: inv.Request, Options: wamp.Dict{}, Arguments: wamp.List{2}})
		vQuiesce()
		vAdvance(int64(2500) * 1000000) // the timeout of the call passes while the result is retried
		_, nint := vFindMsg[*wamp.Interrupt](callee.drain())
		vAssert("no-interrupt-after-the-final-yield", nint == 0)
		// the caller reads again
		got := caller.drain()
		vAdvance(int64(3000) * 1000000)
		got = append(got, caller.drain()...)
		vAssert("progress-then-final-result", len(got) == 2)
		if len(got) == 2 {
			r1, ok1 := got[0].(*wamp.Result)
			r2, ok2 := got[1].(*wamp.Result)
			vAssert("results-not-a-timeout-error", ok1 && ok2)
			if ok1 && ok2 {
				_, p2 := r2.Details["progress"]
				vAssert("final-result-delivered", r1.Arguments[0] == any(1) && r2.Arguments[0] == any(2) && !p2)
			}
		}
		vCover("blocked-caller-case")
	} else {
		caller := vAttach(r, "realm1", nil, 16)
		vAssert("caller-attached", caller != nil)
		if caller == nil {
			return
		}
		caller.send(&wamp.Call{Request: 10, Procedure: "p", Options: wamp.Dict{"progress": true, "timeout": int64(2000)}, Arguments: wamp.List{1}})
		inv, n := vFindMsg[*wamp.Invocation](callee.drain())
		vAssert("invocation", n == 1)
		if n != 1 {
			return
		}
		// the callee has heard enough: final result before the caller's last chunk
		callee.send(&wamp.Yield{Request: inv.Request, Options: wamp.Dict{}, Arguments: wamp.List{2}})
		res, nres := vFindMsg[*wamp.Result](caller.drain())
		vAssert("final-result-delivered", nres == 1 && res.Request == 10)
		vAdvance(int64(2500) * 1000000)
		_, nint := vFindMsg[*wamp.Interrupt](callee.drain())
		vAssert("no-interrupt-after-the-final-yield", nint == 0)
		vAssert("nothing-after-the-final-result", len(caller.drain()) == 0)
		vCover("early-final-result-case")
	}
	vAdvance(int64(5000) * 1000000)
	vAssert("callee-hears-nothing-more", len(callee.drain()) == 0)
	r.Close()
}
