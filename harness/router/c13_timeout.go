package router

import "github.com/gammazero/nexus/v3/wamp"

// C13: timeout forwarding and "never earlier than the timeout" for symbolic
// timeout values of every numeric carrier type.

func Harness_C13_TimeoutForwarding() {
	d := newDealer(vNopLog{}, false, true, false)
	calleeTimeoutFeat := vBool("callee.call_timeout")
	fwd := vChoice("forward_timeout", 3) // absent, false, true
	callee := vNewSess(22, nil, vFeat("callee", map[string]bool{"call_timeout": calleeTimeoutFeat, "call_canceling": true}), 32)
	caller := vNewSess(21, nil, vFeat("caller", map[string]bool{"call_canceling": true}), 32)
	ropts := wamp.Dict{}
	if fwd == 1 {
		ropts["forward_timeout"] = false
	} else if fwd == 2 {
		ropts["forward_timeout"] = true
	}
	d.register(callee.s, &wamp.Register{Request: 1, Procedure: "p.q", Options: ropts})
	vSyncDealer(d)
	callee.vDrain()
	ms := vInt64("timeout.ms")
	vAssume(vAnd(ms >= 1, ms <= 1<<40)) // up to ~34 years; larger values: see Harness_C13_TimeoutArithmetic
	var carrier any
	switch vChoice("timeout.type", 4) {
	case 0:
		carrier = ms
	case 1:
		carrier = uint64(ms)
	case 2:
		carrier = int(ms)
	case 3:
		carrier = wamp.ID(ms)
	}
	t0 := vNow()
	d.call(caller.s, &wamp.Call{Request: 5, Procedure: "p.q", Options: wamp.Dict{"timeout": carrier}})
	vSyncDealer(d)
	inv, n := vFindMsg[*wamp.Invocation](callee.vDrain())
	vAssert("invocation-sent", n == 1)
	if n != 1 {
		return
	}
	forwarded := calleeTimeoutFeat && fwd == 2
	tv, has := inv.Details["timeout"]
	vAssert("timeout-forwarded-iff-callee-handles-it", has == forwarded)
	if forwarded {
		vAssert("forwarded-value", tv == any(ms))
		vAssert("no-router-timer-when-forwarded", vPendingTimers() == 0)
		vCover("timeout-forwarded")
		return
	}
	vAssert("router-timer-started", vPendingTimers() == 1)
	// nothing happens before the timer
	vAssert("nothing-before-expiry", len(caller.vDrain()) == 0)
	fired := vFireTimer()
	vSyncDealer(d)
	vAssert("timer-fires", fired)
	vAssert("never-earlier-than-timeout", vNow() >= t0+ms*1000000)
	e, ne := vFindMsg[*wamp.Error](caller.vDrain())
	vAssert("timeout-error-once", ne == 1 && e != nil && e.Error == wamp.ErrTimeout && e.Request == 5 && e.Type == wamp.CALL)
	_, ni := vFindMsg[*wamp.Interrupt](callee.vDrain())
	vAssert("interrupt-as-killnowait", ni == 1)
	// never after the call already completed: a late YIELD changes nothing
	d.yield(callee.s, &wamp.Yield{Request: inv.Request})
	vSyncDealer(d)
	vAssert("nothing-after-timeout", len(caller.vDrain()) == 0)
	vCover("router-timeout-fired(virtual-time)")
}

// the millisecond -> duration conversion for every positive 63-bit timeout
func Harness_C13_TimeoutArithmetic() {
	d := newDealer(vNopLog{}, false, true, false)
	callee := vNewSess(22, nil, vFeat("callee", map[string]bool{"call_canceling": true}), 32)
	caller := vNewSess(21, nil, vFeat("caller", map[string]bool{"call_canceling": true}), 32)
	d.register(callee.s, &wamp.Register{Request: 1, Procedure: "p.q"})
	vSyncDealer(d)
	callee.vDrain()
	ms := vInt64("timeout.ms")
	vAssume(ms >= 1)
	t0 := vNow()
	d.call(caller.s, &wamp.Call{Request: 5, Procedure: "p.q", Options: wamp.Dict{"timeout": ms}})
	vSyncDealer(d)
	callee.vDrain()
	if !vFireTimer() {
		return
	}
	vSyncDealer(d)
	elapsed := vNow() - t0
	if _, ne := vFindMsg[*wamp.Error](caller.vDrain()); ne == 1 {
		// the call was ended by the router: then at least `ms` milliseconds have
		// passed (timeouts beyond what a time.Duration can hold, ~292 years, may
		// be shortened; the claim is made up to ~146 years). Compared without overflow.
		// (half of the Duration range, so that now+timeout does not saturate)
		// first the natively observable case: ended within 3 s although more was asked for
		vAssert("no-timeout-within-3s-unless-asked", vImplies(elapsed < 3000000000, ms <= 3000))
		const maxMs = int64(4611686018427)
		vAssert("never-earlier-than-timeout", elapsed/1000000 >= vIteInt64(ms > maxMs, maxMs, ms))
		vCover("timeout-observed(virtual-time)")
	}
}
