package router

import (
	"crypto/rand"
	"encoding/hex"
	"errors"

	"golang.org/x/crypto/nacl/sign"

	"github.com/gammazero/nexus/v3/router/auth"
	"github.com/gammazero/nexus/v3/transport"
	"github.com/gammazero/nexus/v3/wamp"
	"github.com/gammazero/nexus/v3/wamp/crsign"
)

// C09: only authenticated clients join, under router-assigned identity.

type vKeyStore struct {
	user string
	keys map[string][]byte // authmethod -> key
	role string
}

func (k *vKeyStore) AuthKey(authid, authmethod string) ([]byte, error) {
	if authid != k.user {
		return nil, errors.New("no such user")
	}
	key, ok := k.keys[authmethod]
	if !ok {
		return nil, errors.New("no key for method")
	}
	return key, nil
}
func (k *vKeyStore) PasswordInfo(authid string) (string, int, int) { return "", 0, 0 }
func (k *vKeyStore) AuthRole(authid string) (string, error) {
	if authid != k.user {
		return "", errors.New("no such user")
	}
	return k.role, nil
}
func (k *vKeyStore) Provider() string { return "vstore" }

// outcome of one handshake as the client saw it
type vHandshake struct {
	err       error
	welcome   *wamp.Welcome
	abort     *wamp.Abort
	challenge *wamp.Challenge
	client    wamp.Peer
}

// vDoHandshake runs AttachClient against a scripted client: first message,
// then answer(challenge) if challenged.
func vDoHandshake(r *router, first wamp.Message, answer func(*wamp.Challenge) wamp.Message) vHandshake {
	c, rp := transport.LinkedPeersQSize(8)
	var hs vHandshake
	hs.client = c
	done := make(chan struct{})
	go func() {
		defer close(done)
		c.Send() <- first
		for {
			m, ok := <-c.Recv()
			if !ok {
				return
			}
			switch mm := m.(type) {
			case *wamp.Challenge:
				hs.challenge = mm
				if answer == nil {
					return
				}
				c.Send() <- answer(mm)
			case *wamp.Welcome:
				hs.welcome = mm
				return
			case *wamp.Abort:
				hs.abort = mm
				return
			default:
				return
			}
		}
	}()
	hs.err = r.AttachClient(rp, nil)
	<-done
	return hs
}

func vAuthRouter(ks *vKeyStore, methods int) *router {
	var as []auth.Authenticator
	if methods&1 != 0 {
		as = append(as, auth.NewTicketAuthenticator(ks, 0))
	}
	if methods&2 != 0 {
		as = append(as, auth.NewCRAuthenticator(ks, 0))
	}
	if methods&4 != 0 {
		as = append(as, auth.NewCryptoSignAuthenticator(ks, 0))
	}
	return vNewRouter(&Config{RealmConfigs: []*RealmConfig{{URI: "realm1", Authenticators: as, RequireLocalAuth: true, AnonymousAuth: methods&8 != 0}}})
}

func vHello(authid string, methods ...any) *wamp.Hello {
	return &wamp.Hello{Realm: "realm1", Details: wamp.Dict{
		"roles": vAllRoles, "authid": authid, "authmethods": wamp.List(methods),
		// attacker-chosen identity claims
		"session": wamp.ID(666), "authrole": "admin", "authmethod": "forged", "authprovider": "forged",
	}}
}

func vCheckIdentity(rl *realm, hs vHandshake, authid, role, method string) {
	vAssert("welcome-sent", hs.err == nil && hs.welcome != nil)
	if hs.welcome == nil {
		return
	}
	sess := rl.clients[hs.welcome.ID]
	vAssert("session-attached-under-router-id", sess != nil && sess.ID == hs.welcome.ID)
	if sess == nil {
		return
	}
	d := sess.Details
	vAssert("identity-from-router-not-hello", d["session"] == any(hs.welcome.ID) && d["authid"] == any(authid) && d["authrole"] == any(role) && d["authmethod"] == any(method) && d["authprovider"] == any("vstore"))
}

func vCheckRejected(rl *realm, hs vHandshake, nBefore int) {
	vAssert("no-welcome", hs.welcome == nil && hs.err != nil)
	vAssert("abort-sent", hs.abort != nil)
	vAssert("not-attached", len(rl.clients) == nBefore)
}

// ticket: accepted iff the ticket matches; every other first message / method is refused
func Harness_C09_Ticket() {
	ks := &vKeyStore{user: "alice", keys: map[string][]byte{"ticket": []byte("s3cr3t")}, role: "user"}
	r := vAuthRouter(ks, 1)
	rl := r.realms["realm1"]
	switch vChoice("case", 7) {
	case 0: // right ticket
		hs := vDoHandshake(r, vHello("alice", "ticket"), func(*wamp.Challenge) wamp.Message { return &wamp.Authenticate{Signature: "s3cr3t"} })
		vCheckIdentity(rl, hs, "alice", "user", "ticket")
		vCover("ticket-accepted")
	case 1: // any other 6-byte ticket
		t := vStringN("ticket", 6)
		vAssume(t != "s3cr3t")
		hs := vDoHandshake(r, vHello("alice", "ticket"), func(*wamp.Challenge) wamp.Message { return &wamp.Authenticate{Signature: t} })
		vCheckRejected(rl, hs, 0)
		vCover("wrong-ticket-rejected")
	case 2: // unknown user
		hs := vDoHandshake(r, vHello("mallory", "ticket"), func(*wamp.Challenge) wamp.Message { return &wamp.Authenticate{Signature: "s3cr3t"} })
		vCheckRejected(rl, hs, 0)
	case 3: // method not configured on the realm
		hs := vDoHandshake(r, vHello("alice", "wampcra", "anonymous", 7, nil), nil)
		vCheckRejected(rl, hs, 0)
	case 4: // first message is not HELLO
		var first wamp.Message
		switch vChoice("first", 4) {
		case 0:
			first = &wamp.Authenticate{Signature: "s3cr3t"}
		case 1:
			first = &wamp.Subscribe{Request: 1, Topic: "x"}
		case 2:
			first = &wamp.Welcome{ID: 5}
		case 3:
			first = &wamp.Goodbye{}
		}
		hs := vDoHandshake(r, first, nil)
		vCheckRejected(rl, hs, 0)
		vCover("non-hello-rejected")
	case 5: // no client role announced
		h := vHello("alice", "ticket")
		h.Details["roles"] = wamp.Dict{}
		hs := vDoHandshake(r, h, func(*wamp.Challenge) wamp.Message { return &wamp.Authenticate{Signature: "s3cr3t"} })
		vCheckRejected(rl, hs, 0)
	case 6: // unknown realm, no template
		h := vHello("alice", "ticket")
		h.Realm = "nowhere"
		hs := vDoHandshake(r, h, nil)
		vAssert("unknown-realm-refused", hs.welcome == nil && hs.err != nil && hs.abort != nil && len(rl.clients) == 0)
	}
}

// wampcra: accepted only with a MAC over the challenge issued in this very handshake
func Harness_C09_CRA() {
	vConcreteRandomIDs(true)
	key := []byte("cra-key")
	ks := &vKeyStore{user: "alice", keys: map[string][]byte{"wampcra": key}, role: "user"}
	r := vAuthRouter(ks, 2)
	rl := r.realms["realm1"]
	var sig1 string
	legit := func(c *wamp.Challenge) wamp.Message {
		ch, _ := wamp.AsString(c.Extra["challenge"])
		sig1 = crsign.SignChallenge(ch, key)
		return &wamp.Authenticate{Signature: sig1}
	}
	hs1 := vDoHandshake(r, vHello("alice", "wampcra"), legit)
	vCheckIdentity(rl, hs1, "alice", "user", "wampcra")
	vCover("cra-accepted")
	switch vChoice("attack", 3) {
	case 0: // replay of the captured response
		hs2 := vDoHandshake(r, vHello("alice", "wampcra"), func(*wamp.Challenge) wamp.Message { return &wamp.Authenticate{Signature: sig1} })
		vCheckRejected(rl, hs2, 1)
		vCover("cra-replay-rejected")
	case 1: // response computed with another key
		hs2 := vDoHandshake(r, vHello("alice", "wampcra"), func(c *wamp.Challenge) wamp.Message {
			ch, _ := wamp.AsString(c.Extra["challenge"])
			return &wamp.Authenticate{Signature: crsign.SignChallenge(ch, []byte("other-key"))}
		})
		vCheckRejected(rl, hs2, 1)
	case 2: // something that is not an AUTHENTICATE
		hs2 := vDoHandshake(r, vHello("alice", "wampcra"), func(*wamp.Challenge) wamp.Message { return &wamp.Subscribe{Request: 1, Topic: "x"} })
		vCheckRejected(rl, hs2, 1)
	}
}

// cryptosign: a signed challenge from an earlier handshake must not be accepted again
func Harness_C09_CryptoSign() {
	vConcreteRandomIDs(true)
	pub, priv, err := sign.GenerateKey(rand.Reader)
	vAssert("keypair", err == nil)
	ks := &vKeyStore{user: "alice", keys: map[string][]byte{"cryptosign": pub[:]}, role: "user"}
	r := vAuthRouter(ks, 4)
	rl := r.realms["realm1"]
	var captured string
	legit := func(c *wamp.Challenge) wamp.Message {
		chHex, _ := wamp.AsString(c.Extra["challenge"])
		ch, _ := hex.DecodeString(chHex)
		captured = hex.EncodeToString(sign.Sign(nil, ch, priv))
		return &wamp.Authenticate{Signature: captured}
	}
	hs1 := vDoHandshake(r, vHello("alice", "cryptosign"), legit)
	vCheckIdentity(rl, hs1, "alice", "user", "cryptosign")
	vCover("cryptosign-accepted")
	// the attacker saw the AUTHENTICATE of handshake 1 and replays it
	hs2 := vDoHandshake(r, vHello("alice", "cryptosign"), func(*wamp.Challenge) wamp.Message { return &wamp.Authenticate{Signature: captured} })
	vAssert("second-challenge-issued", hs2.challenge != nil)
	vCheckRejected(rl, hs2, 1)
	vCover("cryptosign-replay-checked")
}

// anonymous + local-without-auth: identity still router-assigned
func Harness_C09_Anonymous() {
	ks := &vKeyStore{user: "alice", keys: map[string][]byte{"ticket": []byte("t")}, role: "user"}
	r := vAuthRouter(ks, 1|8)
	rl := r.realms["realm1"]
	h := vHello("", "anonymous")
	delete(h.Details, "authid")
	hs := vDoHandshake(r, h, nil)
	vAssert("anonymous-welcome", hs.err == nil && hs.welcome != nil)
	if hs.welcome != nil {
		sess := rl.clients[hs.welcome.ID]
		vAssert("anonymous-attached", sess != nil)
		if sess != nil {
			d := sess.Details
			vAssert("anonymous-identity-from-router", d["session"] == any(hs.welcome.ID) && d["authrole"] == any("anonymous") && d["authmethod"] == any("anonymous") && d["authprovider"] == any("static"))
		}
	}
	vCover("anonymous-checked")
}

// ---- the whole decision matrix of the handshake ----

func vAuthRouterT(ks *vKeyStore, methods int, localAuth bool) *router {
	const tmo = 200_000_000 // 200 ms
	var as []auth.Authenticator
	if methods&1 != 0 {
		as = append(as, auth.NewTicketAuthenticator(ks, tmo))
	}
	if methods&2 != 0 {
		as = append(as, auth.NewCRAuthenticator(ks, tmo))
	}
	if methods&4 != 0 {
		as = append(as, auth.NewCryptoSignAuthenticator(ks, tmo))
	}
	return vNewRouter(&Config{RealmConfigs: []*RealmConfig{{URI: "realm1", Authenticators: as, RequireLocalAuth: localAuth, AnonymousAuth: methods&8 != 0}}})
}

// vDoHandshakeOn: as vDoHandshake, over a local or a remote-style peer; an
// answer function returning nil stays silent (the router must time out).
func vDoHandshakeOn(r *router, local bool, first wamp.Message, answer func(*wamp.Challenge) wamp.Message) (hs vHandshake, closedAfter bool) {
	var toRouter chan<- wamp.Message
	var fromRouter <-chan wamp.Message
	var rp wamp.Peer
	if local {
		c, p := transport.LinkedPeersQSize(8)
		toRouter, fromRouter, rp = c.Send(), c.Recv(), p
		hs.client = c
	} else {
		p := &vRemotePeer{rd: make(chan wamp.Message), wr: make(chan wamp.Message, 8)}
		toRouter, fromRouter, rp = p.rd, p.wr, p
	}
	done := make(chan struct{})
	go func() {
		defer close(done)
		toRouter <- first
		for {
			m, ok := <-fromRouter
			if !ok {
				closedAfter = true
				return
			}
			switch mm := m.(type) {
			case *wamp.Challenge:
				vAssert("at-most-one-challenge", hs.challenge == nil)
				hs.challenge = mm
				if a := answer(mm); a != nil {
					toRouter <- a
				}
			case *wamp.Welcome:
				hs.welcome = mm
				return
			case *wamp.Abort:
				vAssert("abort-is-the-only-verdict", hs.abort == nil && hs.welcome == nil)
				hs.abort = mm
			default:
				vAssert("only-challenge-welcome-abort-during-handshake", false)
			}
		}
	}()
	hs.err = r.AttachClient(rp, nil)
	<-done
	return hs, closedAfter
}

var vMethodNames = []string{"ticket", "wampcra", "cryptosign", "anonymous"}

func Harness_C09_Matrix() {
	vConcreteRandomIDs(true)
	pub, priv, err := sign.GenerateKey(rand.Reader)
	vAssert("keypair", err == nil)
	craKey := []byte("cra-key")
	ks := &vKeyStore{user: "alice", keys: map[string][]byte{"ticket": []byte("s3cr3t"), "wampcra": craKey, "cryptosign": pub[:]}, role: "user"}
	// roles: all client roles (the full matrix below), or - with the other
	// dimensions fixed - a roles item without any client role / with an unknown extra role
	rolesKind := vChoice("roles", 6)
	special := rolesKind != 0
	configured, localAuth, local := 15, true, false
	if !special {
		configured = vChoice("configured-methods", 16) // bit0 ticket, bit1 wampcra, bit2 cryptosign, bit3 anonymous
		localAuth = vBool("RequireLocalAuth")
		local = vBool("local-peer")
	} else {
		local = vBool("local-peer")
		localAuth = !local || vBool("RequireLocalAuth")
	}
	r := vAuthRouterT(ks, configured, localAuth)
	rl := r.realms["realm1"]

	// HELLO
	authidChoice := 0
	if !special {
		authidChoice = vChoice("authid", 3)
	}
	authid := []string{"alice", "mallory", ""}[authidChoice]
	var offered wamp.List
	var valid []string
	firstOffer := 0
	if !special {
		firstOffer = vChoice("offer.first", 7)
	}
	switch k := firstOffer; k {
	case 0, 1, 2, 3:
		offered = append(offered, vMethodNames[k])
		valid = append(valid, vMethodNames[k])
	case 4:
		offered = append(offered, "")
	case 5:
		offered = append(offered, 7)
	case 6: // no authmethods at all
	}
	if len(offered) > 0 && !special {
		if k := vChoice("offer.second", 5); k < 4 {
			offered = append(offered, vMethodNames[k])
			valid = append(valid, vMethodNames[k])
		}
	}
	// roles: all client roles, or a dict without any client role
	var roles any = vAllRoles
	hasClientRole := true
	switch rolesKind {
	case 1:
		roles, hasClientRole = wamp.Dict{}, false
	case 2:
		roles, hasClientRole = wamp.Dict{"dealer": wamp.Dict{}, "broker": wamp.Dict{}}, false
	case 3:
		roles, hasClientRole = wamp.Dict{"Caller": wamp.Dict{}, "": wamp.Dict{}}, false
	case 4:
		roles, hasClientRole = "caller", false
	case 5:
		roles = wamp.Dict{"subscriber": wamp.Dict{}, "observer": wamp.Dict{}}
	}
	hd := wamp.Dict{"roles": roles,
		"session": wamp.ID(666), "authrole": "admin", "authmethod": "forged", "authprovider": "forged"}
	if authidChoice != 2 {
		hd["authid"] = authid
	}
	if len(offered) > 0 || vBool("empty-authmethods-list") {
		hd["authmethods"] = offered
	}
	hello := &wamp.Hello{Realm: "realm1", Details: hd}

	// the client's answer to a challenge
	answerKind := 0
	if !special {
		answerKind = vChoice("answer", 5)
	} // 0 correct, 1 wrong secret, 2 right secret over another message (cryptosign) / wrong, 3 not an AUTHENTICATE, 4 silence
	answer := func(c *wamp.Challenge) wamp.Message {
		switch answerKind {
		case 3:
			return &wamp.Hello{Realm: "realm1", Details: hd}
		case 4:
			return nil
		}
		switch c.AuthMethod {
		case "ticket":
			if answerKind == 0 {
				return &wamp.Authenticate{Signature: "s3cr3t"}
			}
			t := vString("ticket", 6)
			vAssume(t != "s3cr3t")
			return &wamp.Authenticate{Signature: t}
		case "wampcra":
			ch, _ := wamp.AsString(c.Extra["challenge"])
			if answerKind == 0 {
				return &wamp.Authenticate{Signature: crsign.SignChallenge(ch, craKey)}
			}
			// keys an attacker can try without knowing the secret
			wrongKey := [][]byte{[]byte("other-key"), {}, []byte(authid)}[vChoice("wrong.key", 3)]
			return &wamp.Authenticate{Signature: crsign.SignChallenge(ch, wrongKey)}
		case "cryptosign":
			chHex, _ := wamp.AsString(c.Extra["challenge"])
			ch, _ := hex.DecodeString(chHex)
			switch answerKind {
			case 0:
				return &wamp.Authenticate{Signature: hex.EncodeToString(sign.Sign(nil, ch, priv))}
			case 1:
				_, priv2, _ := sign.GenerateKey(rand.Reader)
				return &wamp.Authenticate{Signature: hex.EncodeToString(sign.Sign(nil, ch, priv2))}
			}
			other := append([]byte{}, ch...)
			other[0] ^= 1
			return &wamp.Authenticate{Signature: hex.EncodeToString(sign.Sign(nil, other, priv))}
		}
		return &wamp.Authenticate{Signature: "x"}
	}

	hs, closedAfter := vDoHandshakeOn(r, local, hello, answer)

	// reference decision
	accept, wantChallenge := false, false
	wantMethod, wantRole, wantProvider := "", "", ""
	wantAuthid, checkAuthid := authid, true
	if !hasClientRole {
		// refused before any authentication
	} else if local && !localAuth {
		accept, wantMethod, wantRole, wantProvider = true, "local", "trusted", "static"
		checkAuthid = authid != ""
	} else {
		if _, has := hd["authmethods"]; !has || len(offered) == 0 {
			valid = []string{"anonymous"}
		}
		sel := ""
		for _, m := range valid {
			on := false
			switch m {
			case "ticket":
				on = configured&1 != 0
			case "wampcra":
				on = configured&2 != 0
			case "cryptosign":
				on = configured&4 != 0
			case "anonymous":
				on = configured&8 != 0
			}
			if on {
				sel = m
				break
			}
		}
		switch sel {
		case "":
		case "anonymous":
			accept, wantMethod, wantRole, wantProvider, checkAuthid = true, "anonymous", "anonymous", "static", false
		default:
			wantMethod, wantRole, wantProvider = sel, "user", "vstore"
			wantChallenge = authid != "" && !(sel == "cryptosign" && authid != "alice")
			accept = wantChallenge && authid == "alice" && answerKind == 0
		}
	}

	vAssert("challenge-issued-iff-a-secret-method-is-selected", (hs.challenge != nil) == wantChallenge)
	if hs.challenge != nil {
		vAssert("challenge-names-the-selected-method", hs.challenge.AuthMethod == wantMethod)
	}
	vAssert("welcome-iff-authenticated", (hs.welcome != nil) == accept)
	vAssert("error-iff-rejected", (hs.err != nil) == !accept)
	if accept {
		if hs.welcome != nil {
			sess := rl.clients[hs.welcome.ID]
			vAssert("session-attached-under-router-id", len(rl.clients) == 1 && sess != nil && sess.ID == hs.welcome.ID && hs.welcome.ID != 666)
			if sess != nil {
				d := sess.Details
				vAssert("identity-from-router-not-hello", d["session"] == any(hs.welcome.ID) && d["authrole"] == any(wantRole) && d["authmethod"] == any(wantMethod) && d["authprovider"] == any(wantProvider))
				w := hs.welcome.Details
				vAssert("welcome-states-the-same-identity", w["authrole"] == any(wantRole) && w["authmethod"] == any(wantMethod) && w["authprovider"] == any(wantProvider))
				if checkAuthid {
					vAssert("authid-is-the-authenticated-one", d["authid"] == any(wantAuthid) && w["authid"] == any(wantAuthid))
				} else {
					_, isStr := d["authid"].(string)
					_, isStrW := w["authid"].(string)
					vAssert("authid-assigned", isStr && isStrW)
				}
			}
			vCover("accepted")
			if wantChallenge {
				vCover("accepted-after-challenge")
			}
		}
	} else {
		vAssert("abort-sent", hs.abort != nil)
		vAssert("transport-closed-after-abort", closedAfter)
		vAssert("not-attached", len(rl.clients) == 0)
		vCover("rejected")
		if wantChallenge && answerKind == 4 {
			vCover("challenge-timeout")
		}
	}
	// broker and dealer have seen nothing from a rejected client
	if !accept {
		vAssert("no-state-from-rejected-client", len(rl.broker.sessionSubIDSet) == 0 && len(rl.dealer.calleeRegIDSet) == 1)
	}
}

// Two overlapping handshakes on one authenticator: an attacker opens a
// handshake as the victim and leaves its challenge unanswered; the victim then
// authenticates; the attacker answers its own, older challenge with the
// response it captured from the victim.
func Harness_C09_OverlappingHandshakes() {
	vConcreteRandomIDs(true)
	pub, priv, err := sign.GenerateKey(rand.Reader)
	vAssert("keypair", err == nil)
	craKey := []byte("cra-key")
	ks := &vKeyStore{user: "alice", keys: map[string][]byte{"wampcra": craKey, "cryptosign": pub[:]}, role: "user"}
	method := []string{"wampcra", "cryptosign"}[vChoice("method", 2)]
	r := vAuthRouterT(ks, 2|4, true)
	rl := r.realms["realm1"]
	captured := ""
	sign1 := func(c *wamp.Challenge) string {
		if method == "wampcra" {
			ch, _ := wamp.AsString(c.Extra["challenge"])
			return crsign.SignChallenge(ch, craKey)
		}
		chHex, _ := wamp.AsString(c.Extra["challenge"])
		ch, _ := hex.DecodeString(chHex)
		return hex.EncodeToString(sign.Sign(nil, ch, priv))
	}
	gotChallenge := make(chan struct{})
	replayNow := make(chan struct{})
	var attacker vHandshake
	var attackerClosed bool
	attackerDone := make(chan struct{})
	go func() {
		defer close(attackerDone)
		attacker, attackerClosed = vDoHandshakeOn(r, vBool("attacker-local"), vHello("alice", method), func(c *wamp.Challenge) wamp.Message {
			close(gotChallenge)
			<-replayNow
			return &wamp.Authenticate{Signature: captured}
		})
	}()
	<-gotChallenge
	// the victim's complete, legitimate handshake
	victim, _ := vDoHandshakeOn(r, true, vHello("alice", method), func(c *wamp.Challenge) wamp.Message {
		captured = sign1(c)
		return &wamp.Authenticate{Signature: captured}
	})
	vCheckIdentity(rl, victim, "alice", "user", method)
	close(replayNow)
	<-attackerDone
	vAssert("attacker-was-challenged", attacker.challenge != nil)
	vAssert("captured-response-rejected-in-an-overlapping-handshake", attacker.welcome == nil && attacker.err != nil && attacker.abort != nil && attackerClosed)
	vAssert("only-the-victim-attached", len(rl.clients) == 1)
	vCover("overlapping-handshakes-checked")
}

// A key store that recognises returning clients by a tracking cookie
// (auth.BypassKeyStore): only a successful authentication may earn the bypass.
type vCookieStore struct {
	vKeyStore
	cookies   map[string]string // authid -> cookie that bypasses authentication
	nWelcomes int
}

func vCookieOf(details wamp.Dict, name string) string {
	v, err := wamp.DictValue(details, []string{"transport", "auth", name})
	if err != nil {
		return ""
	}
	s, _ := v.(string)
	return s
}

func (k *vCookieStore) AlreadyAuth(authid string, details wamp.Dict) bool {
	c := vCookieOf(details, "cookie")
	return c != "" && k.cookies[authid] == c
}

func (k *vCookieStore) OnWelcome(authid string, welcome *wamp.Welcome, details wamp.Dict) error {
	k.nWelcomes++
	if n := vCookieOf(details, "nextcookie"); n != "" {
		k.cookies[authid] = n
	}
	return nil
}

func vHandshakeWithCookie(r *router, method, cookie, next string, answer func(*wamp.Challenge) wamp.Message) vHandshake {
	c, rp := transport.LinkedPeersQSize(8)
	var hs vHandshake
	done := make(chan struct{})
	go func() {
		defer close(done)
		c.Send() <- vHello("alice", method)
		for {
			m, ok := <-c.Recv()
			if !ok {
				return
			}
			switch mm := m.(type) {
			case *wamp.Challenge:
				hs.challenge = mm
				if a := answer(mm); a != nil {
					c.Send() <- a
				}
			case *wamp.Welcome:
				hs.welcome = mm
				return
			case *wamp.Abort:
				hs.abort = mm
			}
		}
	}()
	hs.err = r.AttachClient(rp, wamp.Dict{"auth": wamp.Dict{"cookie": cookie, "nextcookie": next}})
	<-done
	return hs
}

func Harness_C09_CookieBypass() {
	vConcreteRandomIDs(true)
	craKey := []byte("cra-key")
	ks := &vCookieStore{vKeyStore: vKeyStore{user: "alice", keys: map[string][]byte{"ticket": []byte("s3cr3t"), "wampcra": craKey}, role: "user"}, cookies: map[string]string{}}
	method := []string{"ticket", "wampcra"}[vChoice("method", 2)]
	const tmo = 200_000_000
	r := vNewRouter(&Config{RealmConfigs: []*RealmConfig{{URI: "realm1", RequireLocalAuth: true,
		Authenticators: []auth.Authenticator{auth.NewTicketAuthenticator(ks, tmo), auth.NewCRAuthenticator(ks, tmo)}}}})
	rl := r.realms["realm1"]
	answerKind := vChoice("first.answer", 4) // 0 correct, 1 wrong, 2 not an AUTHENTICATE, 3 silence
	mkAnswer := func(kind int) func(*wamp.Challenge) wamp.Message {
		return func(c *wamp.Challenge) wamp.Message {
			switch kind {
			case 2:
				return &wamp.Subscribe{Request: 1, Topic: "x"}
			case 3:
				return nil
			}
			if method == "ticket" {
				if kind == 0 {
					return &wamp.Authenticate{Signature: "s3cr3t"}
				}
				return &wamp.Authenticate{Signature: "wrong"}
			}
			ch, _ := wamp.AsString(c.Extra["challenge"])
			key := craKey
			if kind != 0 {
				key = []byte("other-key")
			}
			return &wamp.Authenticate{Signature: crsign.SignChallenge(ch, key)}
		}
	}
	hs1 := vHandshakeWithCookie(r, method, "c1", "n1", mkAnswer(answerKind))
	vAssert("first-handshake-challenged", hs1.challenge != nil)
	vAssert("welcome-iff-valid-response", (hs1.welcome != nil) == (answerKind == 0))
	vAssert("keystore-told-of-success-only", ks.nWelcomes == vIteInt(answerKind == 0, 1, 0))
	// the same client comes back presenting the cookie it was handed in the
	// first connection, and does not know the secret
	hs2 := vHandshakeWithCookie(r, method, "n1", "n2", mkAnswer(1))
	if answerKind == 0 {
		vAssert("returning-authenticated-client-bypasses", hs2.welcome != nil && hs2.challenge == nil)
		vCover("cookie-bypass-used")
	} else {
		vAssert("failed-login-earns-no-bypass", hs2.welcome == nil && hs2.challenge != nil && hs2.err != nil)
		vAssert("nobody-attached", len(rl.clients) == 0)
		vCover("no-bypass-after-failure")
	}
}
