package router

import (
	"crypto/rand"
	"encoding/hex"
	"errors"

	"golang.org/x/crypto/nacl/sign"

	"github.com/gammazero/nexus/v3/router/auth"
	"github.com/gammazero/nexus/v3/transport"
	"github.com/gammazero/nexus/v3/wamp"
	"github.com/gammazero/nexus/v3/wamp/crsign"
)

// C09: only authenticated clients join, under router-assigned identity.

type vKeyStore struct {
	user string
	keys map[string][]byte // authmethod -> key
	role string
}

func (k *vKeyStore) AuthKey(authid, authmethod string) ([]byte, error) {
	if authid != k.user {
		return nil, errors.New("no such user")
	}
	key, ok := k.keys[authmethod]
	if !ok {
		return nil, errors.New("no key for method")
	}
	return key, nil
}
func (k *vKeyStore) PasswordInfo(authid string) (string, int, int) { return "", 0, 0 }
func (k *vKeyStore) AuthRole(authid string) (string, error) {
	if authid != k.user {
		return "", errors.New("no such user")
	}
	return k.role, nil
}
func (k *vKeyStore) Provider() string { return "vstore" }

// outcome of one handshake as the client saw it
type vHandshake struct {
	err       error
	welcome   *wamp.Welcome
	abort     *wamp.Abort
	challenge *wamp.Challenge
	client    wamp.Peer
}

// vDoHandshake runs AttachClient against a scripted client: first message,
// then answer(challenge) if challenged.
func vDoHandshake(r *router, first wamp.Message, answer func(*wamp.Challenge) wamp.Message) vHandshake {
	c, rp := transport.LinkedPeersQSize(8)
	var hs vHandshake
	hs.client = c
	done := make(chan struct{})
	go func() {
		defer close(done)
		c.Send() <- first
		for {
			m, ok := <-c.Recv()
			if !ok {
				return
			}
			switch mm := m.(type) {
			case *wamp.Challenge:
				hs.challenge = mm
				if answer == nil {
					return
				}
				c.Send() <- answer(mm)
			case *wamp.Welcome:
				hs.welcome = mm
				return
			case *wamp.Abort:
				hs.abort = mm
				return
			default:
				return
			}
		}
	}()
	hs.err = r.AttachClient(rp, nil)
	<-done
	return hs
}

func vAuthRouter(ks *vKeyStore, methods int) *router {
	var as []auth.Authenticator
	if methods&1 != 0 {
		as = append(as, auth.NewTicketAuthenticator(ks, 0))
	}
	if methods&2 != 0 {
		as = append(as, auth.NewCRAuthenticator(ks, 0))
	}
	if methods&4 != 0 {
		as = append(as, auth.NewCryptoSignAuthenticator(ks, 0))
	}
	return vNewRouter(&Config{RealmConfigs: []*RealmConfig{{URI: "realm1", Authenticators: as, RequireLocalAuth: true, AnonymousAuth: methods&8 != 0}}})
}

func vHello(authid string, methods ...any) *wamp.Hello {
	return &wamp.Hello{Realm: "realm1", Details: wamp.Dict{
		"roles": vAllRoles, "authid": authid, "authmethods": wamp.List(methods),
		// attacker-chosen identity claims
		"session": wamp.ID(666), "authrole": "admin", "authmethod": "forged", "authprovider": "forged",
	}}
}

func vCheckIdentity(rl *realm, hs vHandshake, authid, role, method string) {
	vAssert("welcome-sent", hs.err == nil && hs.welcome != nil)
	if hs.welcome == nil {
		return
	}
	sess := rl.clients[hs.welcome.ID]
	vAssert("session-attached-under-router-id", sess != nil && sess.ID == hs.welcome.ID)
	if sess == nil {
		return
	}
	d := sess.Details
	vAssert("identity-from-router-not-hello", d["session"] == any(hs.welcome.ID) && d["authid"] == any(authid) && d["authrole"] == any(role) && d["authmethod"] == any(method) && d["authprovider"] == any("vstore"))
}

func vCheckRejected(rl *realm, hs vHandshake, nBefore int) {
	vAssert("no-welcome", hs.welcome == nil && hs.err != nil)
	vAssert("abort-sent", hs.abort != nil)
	vAssert("not-attached", len(rl.clients) == nBefore)
}

// ticket: accepted iff the ticket matches; every other first message / method is refused
func Harness_C09_Ticket() {
	ks := &vKeyStore{user: "alice", keys: map[string][]byte{"ticket": []byte("s3cr3t")}, role: "user"}
	r := vAuthRouter(ks, 1)
	rl := r.realms["realm1"]
	switch vChoice("case", 7) {
	case 0: // right ticket
		hs := vDoHandshake(r, vHello("alice", "ticket"), func(*wamp.Challenge) wamp.Message { return &wamp.Authenticate{Signature: "s3cr3t"} })
		vCheckIdentity(rl, hs, "alice", "user", "ticket")
		vCover("ticket-accepted")
	case 1: // any other 6-byte ticket
		t := vStringN("ticket", 6)
		vAssume(t != "s3cr3t")
		hs := vDoHandshake(r, vHello("alice", "ticket"), func(*wamp.Challenge) wamp.Message { return &wamp.Authenticate{Signature: t} })
		vCheckRejected(rl, hs, 0)
		vCover("wrong-ticket-rejected")
	case 2: // unknown user
		hs := vDoHandshake(r, vHello("mallory", "ticket"), func(*wamp.Challenge) wamp.Message { return &wamp.Authenticate{Signature: "s3cr3t"} })
		vCheckRejected(rl, hs, 0)
	case 3: // method not configured on the realm
		hs := vDoHandshake(r, vHello("alice", "wampcra", "anonymous", 7, nil), nil)
		vCheckRejected(rl, hs, 0)
	case 4: // first message is not HELLO
		var first wamp.Message
		switch vChoice("first", 4) {
		case 0:
			first = &wamp.Authenticate{Signature: "s3cr3t"}
		case 1:
			first = &wamp.Subscribe{Request: 1, Topic: "x"}
		case 2:
			first = &wamp.Welcome{ID: 5}
		case 3:
			first = &wamp.Goodbye{}
		}
		hs := vDoHandshake(r, first, nil)
		vCheckRejected(rl, hs, 0)
		vCover("non-hello-rejected")
	case 5: // no client role announced
		h := vHello("alice", "ticket")
		h.Details["roles"] = wamp.Dict{}
		hs := vDoHandshake(r, h, func(*wamp.Challenge) wamp.Message { return &wamp.Authenticate{Signature: "s3cr3t"} })
		vCheckRejected(rl, hs, 0)
	case 6: // unknown realm, no template
		h := vHello("alice", "ticket")
		h.Realm = "nowhere"
		hs := vDoHandshake(r, h, nil)
		vAssert("unknown-realm-refused", hs.welcome == nil && hs.err != nil && hs.abort != nil && len(rl.clients) == 0)
	}
}

// wampcra: accepted only with a MAC over the challenge issued in this very handshake
func Harness_C09_CRA() {
	vConcreteRandomIDs(true)
	key := []byte("cra-key")
	ks := &vKeyStore{user: "alice", keys: map[string][]byte{"wampcra": key}, role: "user"}
	r := vAuthRouter(ks, 2)
	rl := r.realms["realm1"]
	var sig1 string
	legit := func(c *wamp.Challenge) wamp.Message {
		ch, _ := wamp.AsString(c.Extra["challenge"])
		sig1 = crsign.SignChallenge(ch, key)
		return &wamp.Authenticate{Signature: sig1}
	}
	hs1 := vDoHandshake(r, vHello("alice", "wampcra"), legit)
	vCheckIdentity(rl, hs1, "alice", "user", "wampcra")
	vCover("cra-accepted")
	switch vChoice("attack", 3) {
	case 0: // replay of the captured response
		hs2 := vDoHandshake(r, vHello("alice", "wampcra"), func(*wamp.Challenge) wamp.Message { return &wamp.Authenticate{Signature: sig1} })
		vCheckRejected(rl, hs2, 1)
		vCover("cra-replay-rejected")
	case 1: // response computed with another key
		hs2 := vDoHandshake(r, vHello("alice", "wampcra"), func(c *wamp.Challenge) wamp.Message {
			ch, _ := wamp.AsString(c.Extra["challenge"])
			return &wamp.Authenticate{Signature: crsign.SignChallenge(ch, []byte("other-key"))}
		})
		vCheckRejected(rl, hs2, 1)
	case 2: // something that is not an AUTHENTICATE
		hs2 := vDoHandshake(r, vHello("alice", "wampcra"), func(*wamp.Challenge) wamp.Message { return &wamp.Subscribe{Request: 1, Topic: "x"} })
		vCheckRejected(rl, hs2, 1)
	}
}

// cryptosign: a signed challenge from an earlier handshake must not be accepted again
func Harness_C09_CryptoSign() {
	vConcreteRandomIDs(true)
	pub, priv, err := sign.GenerateKey(rand.Reader)
	vAssert("keypair", err == nil)
	ks := &vKeyStore{user: "alice", keys: map[string][]byte{"cryptosign": pub[:]}, role: "user"}
	r := vAuthRouter(ks, 4)
	rl := r.realms["realm1"]
	var captured string
	legit := func(c *wamp.Challenge) wamp.Message {
		chHex, _ := wamp.AsString(c.Extra["challenge"])
		ch, _ := hex.DecodeString(chHex)
		captured = hex.EncodeToString(sign.Sign(nil, ch, priv))
		return &wamp.Authenticate{Signature: captured}
	}
	hs1 := vDoHandshake(r, vHello("alice", "cryptosign"), legit)
	vCheckIdentity(rl, hs1, "alice", "user", "cryptosign")
	vCover("cryptosign-accepted")
	// the attacker saw the AUTHENTICATE of handshake 1 and replays it
	hs2 := vDoHandshake(r, vHello("alice", "cryptosign"), func(*wamp.Challenge) wamp.Message { return &wamp.Authenticate{Signature: captured} })
	vAssert("second-challenge-issued", hs2.challenge != nil)
	vCheckRejected(rl, hs2, 1)
	vCover("cryptosign-replay-checked")
}

// anonymous + local-without-auth: identity still router-assigned
func Harness_C09_Anonymous() {
	ks := &vKeyStore{user: "alice", keys: map[string][]byte{"ticket": []byte("t")}, role: "user"}
	r := vAuthRouter(ks, 1|8)
	rl := r.realms["realm1"]
	h := vHello("", "anonymous")
	delete(h.Details, "authid")
	hs := vDoHandshake(r, h, nil)
	vAssert("anonymous-welcome", hs.err == nil && hs.welcome != nil)
	if hs.welcome != nil {
		sess := rl.clients[hs.welcome.ID]
		vAssert("anonymous-attached", sess != nil)
		if sess != nil {
			d := sess.Details
			vAssert("anonymous-identity-from-router", d["session"] == any(hs.welcome.ID) && d["authrole"] == any("anonymous") && d["authmethod"] == any("anonymous") && d["authprovider"] == any("static"))
		}
	}
	vCover("anonymous-checked")
}
