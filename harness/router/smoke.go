package router

import "github.com/gammazero/nexus/v3/wamp"

// Engine smoke test: concrete scenario through the real broker goroutine.
func Harness_Smoke_Broker() {
	b, err := newBroker(vNopLog{}, false, true, false, nil, nil)
	vAssert("broker-created", err == nil)
	sub := vNewSess(11, nil, nil, 8)
	pub := vNewSess(12, nil, nil, 8)
	b.subscribe(sub.s, &wamp.Subscribe{Request: 1, Topic: "a.b"})
	vSyncBroker(b)
	msgs := sub.vDrain()
	vAssert("one-reply", len(msgs) == 1)
	sd, ok := msgs[0].(*wamp.Subscribed)
	vAssert("subscribed", ok)
	b.publish(pub.s, &wamp.Publish{Request: 2, Topic: "a.b", Options: wamp.Dict{"acknowledge": true}, Arguments: wamp.List{"x"}})
	vSyncBroker(b)
	evs := sub.vDrain()
	vAssert("one-event", len(evs) == 1)
	ev, ok := evs[0].(*wamp.Event)
	vAssert("is-event", ok)
	vAssert("sub-id", ev.Subscription == sd.Subscription)
	pm := pub.vDrain()
	vAssert("published", len(pm) == 1)
	pd, ok := pm[0].(*wamp.Published)
	vAssert("is-published", ok)
	vAssert("pubid", pd.Publication == ev.Publication)
	vCover("smoke-done")
}

func Harness_Smoke_Router() {
	r := vNewRouter(&Config{RealmConfigs: []*RealmConfig{{URI: "realm1", AnonymousAuth: true, AllowDisclose: true}}})
	a := vAttach(r, "realm1", nil, 16)
	b := vAttach(r, "realm1", nil, 16)
	vAssert("attached", a != nil && b != nil)
	a.send(&wamp.Subscribe{Request: 1, Topic: "x.y"})
	ms := a.drain()
	vAssert("subscribed", len(ms) == 1)
	b.send(&wamp.Publish{Request: 2, Topic: "x.y", Arguments: wamp.List{vInt64("arg")}})
	ev := a.drain()
	vAssert("event", len(ev) == 1)
	_, ok := ev[0].(*wamp.Event)
	vAssert("is-event", ok)
	r.Close()
	vCover("router-smoke-done")
}
