package router

import "github.com/gammazero/nexus/v3/wamp"

// C01: one PUBLISH against a broker state built by real SUBSCRIBE requests.
// Every queue of every session is compared with an independent reference of
// "who must receive what".

type vSubRec struct {
	sess  int
	uri   vURI
	match string
	id    wamp.ID
}

func vC01(nSess, nSubs, nShapes, nPubShapes, nFilterKinds int, fullOpts bool, fixedSubs bool) {
	strict := false
	if fullOpts {
		strict = vBool("strict")
	}
	b, err := newBroker(vNopLog{}, strict, true, false, nil, nil)
	vAssert("broker-created", err == nil)

	sess := make([]*vSess, nSess)
	authid := make([]string, nSess)
	authrole := make([]string, nSess)
	attrVal := make([][]string, nSess) // values of the custom session attributes
	for i := range sess {
		authid[i] = vStr1("authid")
		authrole[i] = vStr1("authrole")
		det := wamp.Dict{"authid": authid[i], "authrole": authrole[i]}
		for _, an := range vAttrNames {
			av := vStr1("attr." + an)
			attrVal[i] = append(attrVal[i], av)
			det[an] = av
		}
		sess[i] = vNewSess(wamp.ID(11+i), det, nil, 16)
	}

	// --- subscriptions through the real SUBSCRIBE path ---
	var subs []vSubRec
	var fixedT vURI
	if fixedSubs {
		// every session subscribes to the same symbolic topic X.Y (exact);
		// the last request adds a prefix subscription "X." for session 1
		fixedT = vMkURI("fixed.uri", 2)
		vAssume(fixedT.n == 2)
		nSubs = nSess + 1
	}
	for k := 0; k < nSubs; k++ {
		var si int
		var u vURI
		var m string
		if fixedSubs {
			si, u, m = k, fixedT, wamp.MatchExact
			if k == nSess {
				si, m = 1%nSess, wamp.MatchPrefix
				u = vURI{n: 2, empty: [3]bool{false, true, false}, c: fixedT.c}
			}
		} else {
			si = vChoice("sub.sess", nSess)
			u = vMkURI("sub.uri", nShapes)
			m = vMatches[vChoice("sub.match", 3)]
		}
		opts := wamp.Dict{}
		if m != wamp.MatchExact {
			opts["match"] = m
		}
		b.subscribe(sess[si].s, &wamp.Subscribe{Request: wamp.ID(100 + k), Topic: u.str(), Options: opts})
		vSyncBroker(b)
		rep := sess[si].vDrain()
		vAssert("subscribe-one-reply", len(rep) == 1)
		if !u.validFor(m) {
			e, ok := rep[0].(*wamp.Error)
			vAssert("invalid-uri-error", ok && e.Error == wamp.ErrInvalidURI && e.Type == wamp.SUBSCRIBE && e.Request == wamp.ID(100+k))
			continue
		}
		sd, ok := rep[0].(*wamp.Subscribed)
		vAssert("subscribed", ok && sd.Request == wamp.ID(100+k))
		// stable id per (topic, policy): equal to an earlier identical one,
		// different from every other
		dup := false
		for _, o := range subs {
			same := o.match == m && vSameURI(o.uri, u)
			if same {
				vAssert("stable-sub-id", sd.Subscription == o.id)
				if o.sess == si {
					dup = true
				}
			} else {
				vAssert("distinct-sub-id", sd.Subscription != o.id)
			}
		}
		if !dup {
			subs = append(subs, vSubRec{si, u, m, sd.Subscription})
		}
		// nobody else heard anything
		for j := range sess {
			if j != si {
				vAssert("subscribe-silent-for-others", len(sess[j].vDrain()) == 0)
			}
		}
	}

	// --- the publication ---
	pubi := 0
	topic := vMkURI("pub.uri", nPubShapes) // shapes without empty components
	opts := wamp.Dict{}
	ack := true
	excludeMe := false
	if fullOpts {
		ack = false
		switch vChoice("ack", 3) {
		case 1:
			ack = true
			opts["acknowledge"] = true
		case 2:
			opts["acknowledge"] = false
		}
		excludeMe = true
		if vChoice("exclude_me.present", 2) == 1 {
			excludeMe = vBool("exclude_me")
			opts["exclude_me"] = excludeMe
		}
	} else {
		opts["acknowledge"] = true
		opts["exclude_me"] = false
	}
	// one filter kind per path
	var blID, wlID wamp.ID
	var blAuthid, wlAuthrole, blAttr, wlAttr string
	attrIdx := 0
	fk := vChoice("filter.kind", nFilterKinds)
	switch fk {
	case 1:
		blID = vValidID("exclude.id")
		opts["exclude"] = wamp.List{vIDAs("exclude", blID)}
	case 2:
		wlID = vValidID("eligible.id")
		opts["eligible"] = wamp.List{vIDAs("eligible", wlID)}
	case 3:
		blAuthid = vStr1("exclude_authid")
		opts["exclude_authid"] = wamp.List{blAuthid}
	case 4:
		wlAuthrole = vStr1("eligible_authrole")
		opts["eligible_authrole"] = wamp.List{wlAuthrole}
	case 5:
		blID = vValidID("exclude.id")
		wlAuthrole = vStr1("eligible_authrole")
		opts["exclude"] = wamp.List{vIDAs("exclude", blID)}
		opts["eligible_authrole"] = wamp.List{wlAuthrole}
	case 6: // black list on any other session attribute
		attrIdx = vChoice("exclude.attr", len(vAttrNames))
		blAttr = vStr1("exclude.attr.value")
		opts["exclude_"+vAttrNames[attrIdx]] = wamp.List{blAttr}
	case 7: // white list on any other session attribute
		attrIdx = vChoice("eligible.attr", len(vAttrNames))
		wlAttr = vStr1("eligible.attr.value")
		opts["eligible_"+vAttrNames[attrIdx]] = wamp.List{wlAttr}
	}
	arg := vInt64("arg")
	msg := &wamp.Publish{Request: 777, Topic: topic.str(), Options: opts, Arguments: wamp.List{arg}, ArgumentsKw: wamp.Dict{"k": arg}}
	b.publish(sess[pubi].s, msg)
	vSyncBroker(b)

	// --- compare every queue with the reference ---
	var pubID wamp.ID
	havePubID := false
	for i := range sess {
		got := sess[i].vDrain()
		allowed := true
		if blID != 0 {
			allowed = vAnd(allowed, sess[i].s.ID != blID)
		}
		if wlID != 0 {
			allowed = vAnd(allowed, sess[i].s.ID == wlID)
		}
		if blAuthid != "" {
			allowed = vAnd(allowed, authid[i] != blAuthid)
		}
		if wlAuthrole != "" {
			allowed = vAnd(allowed, authrole[i] == wlAuthrole)
		}
		if blAttr != "" {
			allowed = vAnd(allowed, attrVal[i][attrIdx] != blAttr)
		}
		if wlAttr != "" {
			allowed = vAnd(allowed, attrVal[i][attrIdx] == wlAttr)
		}
		if i == pubi {
			allowed = vAnd(allowed, !excludeMe)
		}
		nEvents := 0
		for _, m := range got {
			switch m := m.(type) {
			case *wamp.Event:
				nEvents++
				if havePubID {
					vAssert("one-publication-id", m.Publication == pubID)
				} else {
					pubID, havePubID = m.Publication, true
				}
				vAssert("args-unchanged", len(m.Arguments) == 1 && m.Arguments[0] == any(arg) && m.ArgumentsKw["k"] == any(arg))
			case *wamp.Published:
				vAssert("published-only-to-acking-publisher", i == pubi && ack && m.Request == 777)
				if havePubID {
					vAssert("published-carries-publication-id", m.Publication == pubID)
				} else {
					pubID, havePubID = m.Publication, true
				}
			default:
				vAssert("no-other-message", false)
			}
		}
		if i == pubi && ack {
			nPublished := 0
			for _, m := range got {
				if _, ok := m.(*wamp.Published); ok {
					nPublished++
				}
			}
			vAssert("exactly-one-published", nPublished == 1)
		}
		// per subscription of this session: exactly one event iff matching and allowed
		want := 0
		for _, sr := range subs {
			if sr.sess != i {
				continue
			}
			should := vAnd(vRefMatch(topic, sr.uri, sr.match), allowed)
			n := 0
			for _, m := range got {
				if ev, ok := m.(*wamp.Event); ok && ev.Subscription == sr.id {
					n++
					if sr.match != wamp.MatchExact {
						vAssert("pattern-event-carries-topic", ev.Details["topic"] == any(msg.Topic))
					}
				}
			}
			vAssert("delivered-iff-matching-and-eligible", vIteBool(should, n == 1, n == 0))
			if n == 1 {
				want++
				vCover("event-delivered")
				if sr.match == wamp.MatchWildcard {
					vCover("wildcard-delivered")
				}
				if sr.match == wamp.MatchPrefix {
					vCover("prefix-delivered")
				}
			}
		}
		vAssert("no-event-without-subscription", nEvents == want)
	}
}

// matching: 2 sessions, 2 subscriptions of any shape/policy, 3 topic shapes
func Harness_C01_Match_Quick() { vC01(2, 2, 6, 3, 1, false, false) }

// options: 3 sessions all subscribed to one symbolic topic (+1 prefix subscription), every
// custom session attributes usable in exclude_<attr> / eligible_<attr> lists (names chosen to
// overlap with the characters of the option prefixes)
var vAttrNames = []string{"department", "level", "xyzzy"}

// acknowledge / exclude_me / filter-list combination
func Harness_C01_Options_Quick() { vC01(3, 0, 0, 2, 8, true, true) }

// thorough: 3 sessions, 3 subscriptions
func Harness_C01_Match_Thorough()   { vC01(3, 3, 6, 3, 1, false, false) }
func Harness_C01_Options_Thorough() { vC01(3, 2, 3, 3, 8, true, false) }
