package router

// Shared harness helpers for the router package (ordinary Go, executed both
// natively and by the symbolic engine).

import (
	"github.com/gammazero/nexus/v3/transport"
	"github.com/gammazero/nexus/v3/wamp"
)

type vNopLog struct{}

func (vNopLog) Print(v ...any)                 {}
func (vNopLog) Println(v ...any)               {}
func (vNopLog) Printf(format string, v ...any) {}

// vSess is a router-side session plus the client end of its peer, so the
// harness can observe everything the router sends to that client.
type vSess struct {
	s      *wamp.Session
	client wamp.Peer
}

// all client-role features, individually switchable
func vRoles(feat map[string]map[string]bool) wamp.Dict {
	roles := wamp.Dict{}
	for role, fs := range feat {
		fd := wamp.Dict{}
		for f, on := range fs {
			fd[f] = on
		}
		roles[role] = wamp.Dict{"features": fd}
	}
	return wamp.Dict{"roles": roles}
}

func vNewSess(id wamp.ID, details wamp.Dict, greet wamp.Dict, qsize int) *vSess {
	c, r := transport.LinkedPeersQSize(qsize)
	if details == nil {
		details = wamp.Dict{}
	}
	return &vSess{s: wamp.NewSession(r, id, details, greet), client: c}
}

// vDrain returns every message queued for the client so far (non-blocking).
func (v *vSess) vDrain() []wamp.Message {
	var out []wamp.Message
	for {
		select {
		case m, ok := <-v.client.Recv():
			if !ok {
				return out
			}
			out = append(out, m)
		default:
			return out
		}
	}
}

// vSyncBroker waits until the broker goroutine has processed everything
// submitted before this call.
func vSyncBroker(b *broker) {
	done := make(chan struct{})
	b.actionChan <- func() { close(done) }
	<-done
}

func vSyncDealer(d *dealer) {
	done := make(chan struct{})
	d.actionChan <- func() { close(done) }
	<-done
}

// ---- symbolic URIs of fixed shape: components are one symbolic byte in
// [a-z] or empty; the harness knows the shape, so its reference matcher works
// on components and never calls strings.Split / HasPrefix. ----

type vURI struct {
	n     int
	empty [3]bool
	c     [3]byte
}

var vShapes = []vURI{
	{n: 1},                                        // "X"
	{n: 2},                                        // "X.Y"
	{n: 3},                                        // "X.Y.Z"
	{n: 2, empty: [3]bool{false, true, false}},    // "X."
	{n: 3, empty: [3]bool{false, true, false}},    // "X..Z"
	{n: 2, empty: [3]bool{true, false, false}},    // ".Y"
}

// vMkURI picks one of the first nShapes shapes and fills symbolic letters.
func vMkURI(name string, nShapes int) vURI {
	u := vShapes[vChoice(name+".shape", nShapes)]
	for i := 0; i < u.n; i++ {
		if !u.empty[i] {
			b := vByte(name + ".c")
			// [a-v]: no harness URI can match the router's own wamp.* meta topics
			vAssume(vAnd(b >= 'a', b <= 'v'))
			u.c[i] = b
		}
	}
	return u
}

func (u vURI) str() wamp.URI {
	var bs []byte
	for i := 0; i < u.n; i++ {
		if i > 0 {
			bs = append(bs, '.')
		}
		if !u.empty[i] {
			bs = append(bs, u.c[i])
		}
	}
	return wamp.URI(string(bs))
}

func (u vURI) hasEmpty() bool {
	for i := 0; i < u.n; i++ {
		if u.empty[i] {
			return true
		}
	}
	return false
}

func (u vURI) lastOnlyEmpty() bool {
	for i := 0; i < u.n-1; i++ {
		if u.empty[i] {
			return false
		}
	}
	return true
}

// reference validity for a subscription / registration URI under a policy
// (letters are [a-z], so strict and loose agree)
func (u vURI) validFor(match string) bool {
	switch match {
	case wamp.MatchWildcard:
		return true
	case wamp.MatchPrefix:
		return u.lastOnlyEmpty()
	}
	return !u.hasEmpty()
}

func vSameURI(a, b vURI) bool {
	if a.n != b.n {
		return false
	}
	ok := true
	for i := 0; i < a.n; i++ {
		if a.empty[i] != b.empty[i] {
			return false
		}
		if !a.empty[i] {
			ok = vAnd(ok, a.c[i] == b.c[i])
		}
	}
	return ok
}

// reference prefix match on the byte strings, positional
func vRefPrefix(u, p vURI) bool {
	us, ps := string(u.str()), string(p.str())
	if len(ps) > len(us) {
		return false
	}
	ok := true
	for i := 0; i < len(ps); i++ {
		ok = vAnd(ok, us[i] == ps[i])
	}
	return ok
}

// reference wildcard match on components (u has no empty components)
func vRefWildcard(u, w vURI) bool {
	if u.n != w.n {
		return false
	}
	ok := true
	for i := 0; i < w.n; i++ {
		if w.empty[i] {
			continue
		}
		if u.empty[i] {
			return false
		}
		ok = vAnd(ok, u.c[i] == w.c[i])
	}
	return ok
}

func vRefMatch(u, pat vURI, match string) bool {
	switch match {
	case wamp.MatchPrefix:
		return vRefPrefix(u, pat)
	case wamp.MatchWildcard:
		return vRefWildcard(u, pat)
	}
	return vSameURI(u, pat)
}

var vMatches = []string{wamp.MatchExact, wamp.MatchPrefix, wamp.MatchWildcard}

// vValidID returns a symbolic WAMP id in [1, 2^53].
func vValidID(name string) wamp.ID {
	v := vUint64(name)
	vAssume(vAnd(v >= 1, v <= 1<<53))
	return wamp.ID(v)
}

// vIDAs wraps an id in one of the numeric Go types a transport can deliver.
func vIDAs(name string, id wamp.ID) any {
	// float64 carriers are decided once, in the C19 AsID harness (FP
	// conversion queries cost seconds each)
	switch vChoice(name+".numtype", 3) {
	case 0:
		return id
	case 1:
		return uint64(id)
	}
	return int64(id)
}

func vStr1(name string) string {
	b := vByte(name)
	vAssume(vAnd(b >= 'a', b <= 'z'))
	return string([]byte{b})
}

// ---- full-router helpers ----

type vClient struct {
	peer wamp.Peer // client end
	id   wamp.ID
}

var vAllRoles = wamp.Dict{
	"publisher":  wamp.Dict{"features": wamp.Dict{"publisher_exclusion": true, "publisher_identification": true, "payload_passthru_mode": true}},
	"subscriber": wamp.Dict{"features": wamp.Dict{"publisher_identification": true, "pattern_based_subscription": true, "payload_passthru_mode": true}},
	"caller":     wamp.Dict{"features": wamp.Dict{"call_canceling": true, "progressive_call_results": true, "progressive_call_invocations": true, "caller_identification": true, "call_timeout": true, "payload_passthru_mode": true}},
	"callee":     wamp.Dict{"features": wamp.Dict{"call_canceling": true, "progressive_call_results": true, "progressive_call_invocations": true, "caller_identification": true, "call_timeout": true, "payload_passthru_mode": true, "shared_registration": true}},
}

var vAttachN int

func vNewRouter(cfg *Config) *router {
	r, err := NewRouter(cfg, vNopLog{})
	vAssert("router-created", err == nil)
	return r.(*router)
}

// vAttach joins a local client to realm; returns nil if the router refused.
func vAttach(r *router, realm wamp.URI, helloDetails wamp.Dict, qsize int) *vClient {
	c, rp := transport.LinkedPeersQSize(qsize)
	if helloDetails == nil {
		helloDetails = wamp.Dict{"roles": vAllRoles}
	}
	if _, ok := helloDetails["authid"]; !ok {
		// a local client without authid gets a random hex authid from the
		// router (formatting of a symbolic id); give it a concrete one
		vAttachN++
		helloDetails["authid"] = "user" + string(rune('0'+vAttachN))
	}
	go func() { c.Send() <- &wamp.Hello{Realm: realm, Details: helloDetails} }()
	err := r.AttachClient(rp, nil)
	if err != nil {
		return nil
	}
	m := <-c.Recv()
	w, ok := m.(*wamp.Welcome)
	vAssert("welcome-after-attach", ok)
	return &vClient{peer: c, id: w.ID}
}

func (c *vClient) send(m wamp.Message) { c.peer.Send() <- m }

// drain returns all queued messages (after letting the router settle).
func (c *vClient) drain() []wamp.Message {
	vQuiesce()
	var out []wamp.Message
	for {
		select {
		case m, ok := <-c.peer.Recv():
			if !ok {
				return out
			}
			vAssert("router-sends-only-values-every-transport-carries", vMsgTransportable(m))
			out = append(out, m)
		default:
			return out
		}
	}
}

// vAny returns a value of any dynamic type a deserializer or an in-process
// client can put into a message (the "decode universe"), with symbolic content.
const vAnyKinds = 14

func vAny(name string) any {
	switch vChoice(name+".type", vAnyKinds) {
	case 0:
		return nil
	case 1:
		return vBool(name)
	case 2:
		return vInt64(name)
	case 3:
		return vUint64(name)
	case 4:
		return vFloat64(name)
	case 5:
		return vString(name, 2)
	case 6:
		return vBytes(name, 1)
	case 7:
		return wamp.List{vInt64(name)}
	case 8:
		return wamp.Dict{"k": vInt64(name)}
	case 9:
		return int(vInt64(name))
	case 10:
		return wamp.ID(vUint64(name))
	case 11:
		return []any{vString(name, 1)}
	case 12:
		return map[string]any{"k": vBool(name)}
	}
	return wamp.URI(vString(name, 2))
}

// vRemotePeer is a router-side peer that is NOT local (like a websocket or
// rawsocket peer): the router may share message objects between such peers.
type vRemotePeer struct {
	rd chan wamp.Message
	wr chan wamp.Message
}

func (p *vRemotePeer) IsLocal() bool               { return false }
func (p *vRemotePeer) Recv() <-chan wamp.Message   { return p.rd }
func (p *vRemotePeer) Send() chan<- wamp.Message   { return p.wr }
func (p *vRemotePeer) Close()                      { close(p.wr) }

type vClientEnd struct{ rd chan wamp.Message }

func (p *vClientEnd) IsLocal() bool             { return false }
func (p *vClientEnd) Recv() <-chan wamp.Message { return p.rd }
func (p *vClientEnd) Send() chan<- wamp.Message { return nil }
func (p *vClientEnd) Close()                    {}

// vNewSessKind creates a session over a local or a remote-style peer.
func vNewSessKind(id wamp.ID, details wamp.Dict, greet wamp.Dict, qsize int, local bool) *vSess {
	if local {
		return vNewSess(id, details, greet, qsize)
	}
	if details == nil {
		details = wamp.Dict{}
	}
	rp := &vRemotePeer{rd: make(chan wamp.Message), wr: make(chan wamp.Message, qsize)}
	return &vSess{s: wamp.NewSession(rp, id, details, greet), client: &vClientEnd{rd: rp.wr}}
}

func vDictEqual(a, b wamp.Dict) bool {
	if len(a) != len(b) {
		return false
	}
	ok := true
	for k, v := range a {
		w, has := b[k]
		if !has {
			return false
		}
		ok = vAnd(ok, v == w)
	}
	return ok
}

// vTransportable: v consists only of values every serializer carries as WAMP
// data (what an in-process peer receives by reference, a network peer must be
// able to receive through JSON, MessagePack or CBOR with the same meaning)
func vTransportable(v any) bool {
	switch t := v.(type) {
	case nil, bool, string, wamp.URI, wamp.ID, int, int8, int16, int32, int64, uint, uint8, uint16, uint32, uint64, float32, float64, []byte:
		return true
	case []wamp.ID, []string, []wamp.URI, []int64:
		return true
	case storedEvent:
		return vTransportable(t.Details) && vTransportable(t.Arguments) && vTransportable(t.ArgumentsKw)
	case wamp.List:
		for _, e := range t {
			if !vTransportable(e) {
				return false
			}
		}
		return true
	case []any:
		for _, e := range t {
			if !vTransportable(e) {
				return false
			}
		}
		return true
	case wamp.Dict:
		for _, e := range t {
			if !vTransportable(e) {
				return false
			}
		}
		return true
	case map[string]any:
		for _, e := range t {
			if !vTransportable(e) {
				return false
			}
		}
		return true
	}
	return false
}

func vMsgTransportable(m wamp.Message) bool {
	switch t := m.(type) {
	case *wamp.Error:
		return vTransportable(t.Details) && vTransportable(t.Arguments) && vTransportable(t.ArgumentsKw)
	case *wamp.Result:
		return vTransportable(t.Details) && vTransportable(t.Arguments) && vTransportable(t.ArgumentsKw)
	case *wamp.Event:
		return vTransportable(t.Details) && vTransportable(t.Arguments) && vTransportable(t.ArgumentsKw)
	case *wamp.Invocation:
		return vTransportable(t.Details) && vTransportable(t.Arguments) && vTransportable(t.ArgumentsKw)
	case *wamp.Welcome:
		return vTransportable(t.Details)
	case *wamp.Abort:
		return vTransportable(t.Details)
	case *wamp.Goodbye:
		return vTransportable(t.Details)
	case *wamp.Interrupt:
		return vTransportable(t.Options)
	}
	return true
}
