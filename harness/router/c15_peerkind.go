package router

import "github.com/gammazero/nexus/v3/wamp"

// C15 (router side): what a session observes does not depend on whether it,
// or any co-recipient, is attached in-process or through a network transport
// (the router shares message objects between network peers).

func Harness_C15_PeerKindTransparency() {
	b, err := newBroker(vNopLog{}, false, true, false, nil, nil)
	vAssert("broker-created", err == nil)
	type obs struct {
		s       *vSess
		sub     wamp.ID
		pattern bool
	}
	mk := func(id wamp.ID) *vSess {
		return vNewSessKind(id, nil, nil, 32, vBool("local"))
	}
	subscribe := func(s *vSess, topic wamp.URI, match string) wamp.ID {
		o := wamp.Dict{}
		if match != wamp.MatchExact {
			o["match"] = match
		}
		b.subscribe(s.s, &wamp.Subscribe{Request: 1, Topic: topic, Options: o})
		vSyncBroker(b)
		sd, n := vFindMsg[*wamp.Subscribed](s.vDrain())
		vAssert("subscribed", n == 1)
		if n != 1 {
			return 0
		}
		return sd.Subscription
	}
	// observers of subscription meta events
	o := []*obs{{s: mk(31)}, {s: mk(32), pattern: true}, {s: mk(33), pattern: true}, {s: mk(34)}}
	o[0].sub = subscribe(o[0].s, wamp.MetaEventSubOnSubscribe, wamp.MatchExact)
	o[1].sub = subscribe(o[1].s, "wamp.subscription.", wamp.MatchPrefix)
	o[2].sub = subscribe(o[2].s, "wamp..on_subscribe", wamp.MatchWildcard)
	o[3].sub = subscribe(o[3].s, wamp.MetaEventSubOnSubscribe, wamp.MatchExact)
	vAssert("same-subscription-shared", o[0].sub == o[3].sub && o[0].sub != o[1].sub && o[1].sub != o[2].sub && o[0].sub != o[2].sub)
	for _, x := range o {
		x.s.vDrain()
	}
	// an actor subscribes and unsubscribes
	actor := mk(35)
	asub := subscribe(actor, "x.y", wamp.MatchExact)
	b.unsubscribe(actor.s, &wamp.Unsubscribe{Request: 2, Subscription: asub})
	vSyncBroker(b)
	actor.vDrain()
	var seenEvents []*wamp.Event
	for i, x := range o {
		var topics []wamp.URI
		for _, m := range x.s.vDrain() {
			e, ok := m.(*wamp.Event)
			if ok {
				// every message object is delivered once: an in-process recipient
				// may keep and modify its own, so nobody else gets the same one
				// unless both are network peers (checked through a scribble below)
				for _, prev := range seenEvents {
					_, scribbled := prev.Details["scribbled-by-local-recipient"]
					if prev == e {
						vAssert("message-object-shared-only-between-network-peers", !scribbled && !x.s.client.IsLocal())
					}
				}
				seenEvents = append(seenEvents, e)
				if x.s.client.IsLocal() && e.Details != nil {
					e.Details["scribbled-by-local-recipient"] = true
				}
				_, dirty := e.Details["scribbled-by-local-recipient"]
				vAssert("no-recipient-sees-another-recipients-modifications", dirty == x.s.client.IsLocal())
			}
			vAssert("observer-gets-events-only", ok)
			if !ok {
				continue
			}
			vAssert("event-carries-the-recipients-own-subscription-id", e.Subscription == x.sub)
			t, has := e.Details["topic"]
			vAssert("topic-detail-iff-pattern-subscription", has == x.pattern)
			if has {
				tu, _ := wamp.AsURI(t)
				topics = append(topics, tu)
			}
			vAssert("event-names-the-acting-session", len(e.Arguments) >= 1 && e.Arguments[0] == any(wamp.ID(35)))
		}
		switch i {
		case 1: // prefix observer sees the whole life cycle, in order
			vAssert("prefix-observer-sees-all-four-meta-events-in-order", len(topics) == 4 && topics[0] == wamp.MetaEventSubOnCreate && topics[1] == wamp.MetaEventSubOnSubscribe && topics[2] == wamp.MetaEventSubOnUnsubscribe && topics[3] == wamp.MetaEventSubOnDelete)
		case 2:
			vAssert("wildcard-observer-sees-on-subscribe", len(topics) == 1 && topics[0] == wamp.MetaEventSubOnSubscribe)
		}
	}
	// an ordinary publication to recipients of mixed kinds
	q := []*obs{{s: mk(41)}, {s: mk(42), pattern: true}, {s: mk(43)}}
	q[0].sub = subscribe(q[0].s, "t.u", wamp.MatchExact)
	q[1].sub = subscribe(q[1].s, "t.", wamp.MatchPrefix)
	q[2].sub = subscribe(q[2].s, "t.u", wamp.MatchExact)
	for _, x := range append(o, q...) {
		x.s.vDrain()
	}
	pub := mk(44)
	arg := vInt64("arg")
	b.publish(pub.s, &wamp.Publish{Request: 9, Topic: "t.u", Arguments: wamp.List{arg}})
	vSyncBroker(b)
	for _, x := range q {
		ms := x.s.vDrain()
		vAssert("one-event-per-recipient", len(ms) == 1)
		if len(ms) != 1 {
			continue
		}
		e, ok := ms[0].(*wamp.Event)
		vAssert("is-event", ok)
		if !ok {
			continue
		}
		vAssert("publication-carries-the-recipients-own-subscription-id", e.Subscription == x.sub)
		_, has := e.Details["topic"]
		vAssert("publication-topic-detail-iff-pattern-subscription", has == x.pattern)
		vAssert("publication-payload", len(e.Arguments) == 1 && e.Arguments[0] == any(arg))
	}
	vCover("peer-kinds-checked")
}
