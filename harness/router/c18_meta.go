package router

import "github.com/gammazero/nexus/v3/wamp"

// C18: the meta API and the meta events mirror the realm's actual state.

var vMetaReq wamp.ID = 1000

func (c *vClient) metaCall(proc wamp.URI, args wamp.List, kw wamp.Dict) (*wamp.Result, *wamp.Error, []wamp.Message) {
	vMetaReq++
	req := vMetaReq
	c.send(&wamp.Call{Request: req, Procedure: proc, Arguments: args, ArgumentsKw: kw})
	var res *wamp.Result
	var er *wamp.Error
	var rest []wamp.Message
	for _, m := range c.drain() {
		switch mm := m.(type) {
		case *wamp.Result:
			if mm.Request == req {
				res = mm
				continue
			}
		case *wamp.Error:
			if mm.Request == req {
				er = mm
				continue
			}
		}
		rest = append(rest, m)
	}
	vAssert("meta-call-answered-once", (res != nil) != (er != nil))
	return res, er, rest
}

func vIDList(v any) ([]wamp.ID, bool) {
	l, ok := wamp.AsList(v)
	if !ok {
		return nil, false
	}
	var out []wamp.ID
	for _, e := range l {
		id, ok := wamp.AsID(e)
		if !ok {
			return nil, false
		}
		out = append(out, id)
	}
	return out, true
}

func vHasID(ids []wamp.ID, id wamp.ID) bool {
	for _, x := range ids {
		if x == id {
			return true
		}
	}
	return false
}

func vMetaTopicOf(m wamp.Message) wamp.URI {
	e, ok := m.(*wamp.Event)
	if !ok {
		return ""
	}
	t, _ := wamp.AsURI(e.Details["topic"])
	return t
}

func vTopics(ms []wamp.Message) []wamp.URI {
	var out []wamp.URI
	for _, m := range ms {
		if t := vMetaTopicOf(m); t != "" {
			out = append(out, t)
		}
	}
	return out
}

func vSameTopics(got []wamp.URI, want ...wamp.URI) bool {
	if len(got) != len(want) {
		return false
	}
	for i := range want {
		if got[i] != want[i] {
			return false
		}
	}
	return true
}

func Harness_C18_MetaAPI() {
	r := vNewRouter(&Config{RealmConfigs: []*RealmConfig{{URI: "realm1", AnonymousAuth: true, EnableMetaKill: true}}})
	m := vAttach(r, "realm1", nil, 128)
	vAssert("observer-attached", m != nil)
	m.send(&wamp.Subscribe{Request: 1, Topic: "wamp.", Options: wamp.Dict{"match": "prefix"}})
	m.drain()

	// --- joins are announced once each ---
	a := vAttach(r, "realm1", nil, 64)
	ev := m.drain()
	vAssert("on-join-once", vSameTopics(vTopics(ev), wamp.MetaEventSessionOnJoin))
	b := vAttach(r, "realm1", nil, 64)
	vAssert("on-join-once-b", vSameTopics(vTopics(m.drain()), wamp.MetaEventSessionOnJoin))

	// --- subscription churn: order and addressees of meta events ---
	a.send(&wamp.Subscribe{Request: 10, Topic: "s.t"})
	am := a.drain()
	sa, _ := vFindMsg[*wamp.Subscribed](am)
	vAssert("a-subscribed", sa != nil)
	vAssert("create-before-subscribe", vSameTopics(vTopics(m.drain()), wamp.MetaEventSubOnCreate, wamp.MetaEventSubOnSubscribe))
	b.send(&wamp.Subscribe{Request: 11, Topic: "s.t"})
	b.drain()
	vAssert("second-subscriber-only-on-subscribe", vSameTopics(vTopics(m.drain()), wamp.MetaEventSubOnSubscribe))
	// ineffective: already subscribed
	b.send(&wamp.Subscribe{Request: 12, Topic: "s.t"})
	b.drain()
	vAssert("repeated-subscribe-announces-nothing", len(m.drain()) == 0)

	// --- registration churn ---
	a.send(&wamp.Register{Request: 20, Procedure: "p.q", Options: wamp.Dict{"invoke": "roundrobin"}})
	ra, _ := vFindMsg[*wamp.Registered](a.drain())
	vAssert("a-registered", ra != nil)
	vAssert("reg-create-before-register", vSameTopics(vTopics(m.drain()), wamp.MetaEventRegOnCreate, wamp.MetaEventRegOnRegister))
	// refused: conflicting policy
	b.send(&wamp.Register{Request: 21, Procedure: "p.q"})
	_, nErr := vFindMsg[*wamp.Error](b.drain())
	vAssert("conflicting-register-refused", nErr == 1)
	vAssert("refused-register-announces-nothing", len(m.drain()) == 0)
	// ineffective: UNREGISTER / UNSUBSCRIBE of something b is not part of
	if vBool("foreign.unregister") {
		b.send(&wamp.Unregister{Request: 22, Registration: ra.Registration})
	} else {
		m.send(&wamp.Unsubscribe{Request: 23, Subscription: sa.Subscription})
	}
	b.drain()
	vAssert("ineffective-request-announces-nothing", len(vTopics(m.drain())) == 0)

	// --- procedures agree with the state ---
	switch vChoice("proc", 9) {
	case 0:
		res, _, _ := m.metaCall(wamp.MetaProcSessionCount, nil, nil)
		vAssert("session-count", res != nil && len(res.Arguments) == 1)
		if res != nil && len(res.Arguments) == 1 {
			n, _ := wamp.AsInt64(res.Arguments[0])
			vAssert("session-count-3", n == 3)
		}
		lst, _, _ := m.metaCall(wamp.MetaProcSessionList, nil, nil)
		if lst != nil && len(lst.Arguments) == 1 {
			ids, ok := vIDList(lst.Arguments[0])
			vAssert("session-list", ok && len(ids) == 3 && vHasID(ids, a.id) && vHasID(ids, b.id) && vHasID(ids, m.id))
		}
	case 1:
		target := []wamp.ID{a.id, b.id, m.id}[vChoice("get.which", 3)]
		res, _, _ := m.metaCall(wamp.MetaProcSessionGet, wamp.List{vIDAs("get", target)}, nil)
		vAssert("session-get", res != nil && len(res.Arguments) == 1)
		if res != nil && len(res.Arguments) == 1 {
			d, _ := wamp.AsDict(res.Arguments[0])
			sid, _ := wamp.AsID(d["session"])
			vAssert("session-get-id", sid == target)
		}
	case 2:
		unknown := vValidID("unknown.session")
		vAssume(unknown != a.id && unknown != b.id && unknown != m.id)
		_, er, _ := m.metaCall(wamp.MetaProcSessionGet, wamp.List{unknown}, nil)
		vAssert("unknown-session-error", er != nil && er.Error == wamp.ErrNoSuchSession)
	case 3:
		res, _, _ := m.metaCall(wamp.MetaProcRegLookup, wamp.List{"p.q"}, nil)
		vAssert("reg-lookup", res != nil && len(res.Arguments) == 1)
		if res != nil && len(res.Arguments) == 1 {
			id, _ := wamp.AsID(res.Arguments[0])
			vAssert("reg-lookup-id", id == ra.Registration)
		}
		mt, _, _ := m.metaCall(wamp.MetaProcRegMatch, wamp.List{"p.q"}, nil)
		if mt != nil && len(mt.Arguments) == 1 {
			id, _ := wamp.AsID(mt.Arguments[0])
			vAssert("reg-match-agrees-with-routing", id == ra.Registration)
		}
		cc, _, _ := m.metaCall(wamp.MetaProcRegCountCallees, wamp.List{vIDAs("cc", ra.Registration)}, nil)
		lc, _, _ := m.metaCall(wamp.MetaProcRegListCallees, wamp.List{ra.Registration}, nil)
		if cc != nil && lc != nil && len(cc.Arguments) == 1 && len(lc.Arguments) == 1 {
			n, _ := wamp.AsInt64(cc.Arguments[0])
			ids, ok := vIDList(lc.Arguments[0])
			vAssert("count-equals-list-length", ok && int(n) == len(ids) && len(ids) == 1 && ids[0] == a.id)
		} else {
			vAssert("callee-queries-answered", false)
		}
	case 4:
		unknown := vValidID("unknown.reg")
		_, regExists := r.realms["realm1"].dealer.registrations[unknown]
		vAssume(!regExists)
		which := []wamp.URI{wamp.MetaProcRegGet, wamp.MetaProcRegListCallees, wamp.MetaProcRegCountCallees}[vChoice("unknown.reg.proc", 3)]
		_, er, _ := m.metaCall(which, wamp.List{unknown}, nil)
		vAssert("unknown-registration-error", er != nil && er.Error == wamp.ErrNoSuchRegistration)
	case 5:
		res, _, _ := m.metaCall(wamp.MetaProcSubLookup, wamp.List{"s.t"}, nil)
		vAssert("sub-lookup", res != nil && len(res.Arguments) == 1)
		if res != nil && len(res.Arguments) == 1 {
			id, _ := wamp.AsID(res.Arguments[0])
			vAssert("sub-lookup-id", id == sa.Subscription)
		}
		mt, _, _ := m.metaCall(wamp.MetaProcSubMatch, wamp.List{"s.t"}, nil)
		if mt != nil && len(mt.Arguments) == 1 {
			ids, ok := vIDList(mt.Arguments[0])
			vAssert("sub-match-agrees-with-routing", ok && len(ids) == 1 && ids[0] == sa.Subscription)
		}
	case 6:
		cs, _, _ := m.metaCall(wamp.MetaProcSubCountSubscribers, wamp.List{vIDAs("cs", sa.Subscription)}, nil)
		ls, _, _ := m.metaCall(wamp.MetaProcSubListSubscribers, wamp.List{sa.Subscription}, nil)
		if cs != nil && ls != nil && len(cs.Arguments) == 1 && len(ls.Arguments) == 1 {
			n, _ := wamp.AsInt64(cs.Arguments[0])
			ids, ok := vIDList(ls.Arguments[0])
			vAssert("sub-count-equals-list-length", ok && int(n) == len(ids) && len(ids) == 2 && vHasID(ids, a.id) && vHasID(ids, b.id))
		} else {
			vAssert("subscriber-queries-answered", false)
		}
	case 7:
		unknown := vValidID("unknown.sub")
		subs := r.realms["realm1"].broker.subscriptions
		_, exists := subs[unknown]
		vAssume(!exists)
		which := []wamp.URI{wamp.MetaProcSubGet, wamp.MetaProcSubListSubscribers, wamp.MetaProcSubCountSubscribers}[vChoice("unknown.sub.proc", 3)]
		_, er, _ := m.metaCall(which, wamp.List{unknown}, nil)
		vAssert("unknown-subscription-error", er != nil && er.Error == wamp.ErrNoSuchSubscription)
	case 8:
		// the standard name of the procedure exists
		res, er, _ := m.metaCall("wamp.subscription.count_subscribers", wamp.List{sa.Subscription}, nil)
		vAssert("count_subscribers-is-registered-under-its-wamp-name", res != nil && er == nil)
	}
	m.drain()

	// --- leave: unsubscribe/unregister before delete, on_leave once ---
	a.send(&wamp.Goodbye{Reason: wamp.CloseRealm, Details: wamp.Dict{}})
	a.drain()
	lv := vTopics(m.drain())
	nLeave, nUnreg, nRegDel := 0, 0, 0
	for _, t := range lv {
		switch t {
		case wamp.MetaEventSessionOnLeave:
			nLeave++
		case wamp.MetaEventRegOnUnregister:
			nUnreg++
			vAssert("unregister-before-delete", nRegDel == 0)
		case wamp.MetaEventRegOnDelete:
			nRegDel++
		}
	}
	vAssert("leave-announced-once", nLeave == 1 && nUnreg == 1 && nRegDel == 1)
	vCover("meta-checked")
}

// kill procedures end exactly the targeted sessions, never the caller;
// testaments are published or flushed exactly as requested
func Harness_C18_KillAndTestaments() {
	r := vNewRouter(&Config{RealmConfigs: []*RealmConfig{{URI: "realm1", AnonymousAuth: true, EnableMetaKill: true}}})
	mk := func(id, role string) *vClient {
		return vAttach(r, "realm1", wamp.Dict{"roles": vAllRoles, "authid": id}, 64)
	}
	caller := mk("admin", "")
	s1 := mk("alice", "")
	s2 := mk("alice", "")
	s3 := mk("bob", "")
	obs := mk("watcher", "")
	vAssert("attached", caller != nil && s1 != nil && s2 != nil && s3 != nil && obs != nil)
	rl := r.realms["realm1"]
	obs.send(&wamp.Subscribe{Request: 1, Topic: "will.topic"})
	obs.drain()
	// s1 leaves two testaments, one of which it may flush again
	s1.send(&wamp.Call{Request: 10, Procedure: wamp.MetaProcSessionAddTestament, Arguments: wamp.List{"will.topic", wamp.List{"destroyed-will"}, wamp.Dict{}}})
	s1.send(&wamp.Call{Request: 11, Procedure: wamp.MetaProcSessionAddTestament, Arguments: wamp.List{"will.topic", wamp.List{"detached-will"}, wamp.Dict{}}, ArgumentsKw: wamp.Dict{"scope": "detached"}})
	flush := vChoice("flush", 3) // none, destroyed, detached
	if flush == 1 {
		s1.send(&wamp.Call{Request: 12, Procedure: wamp.MetaProcSessionFlushTestaments})
	} else if flush == 2 {
		s1.send(&wamp.Call{Request: 12, Procedure: wamp.MetaProcSessionFlushTestaments, ArgumentsKw: wamp.Dict{"scope": "detached"}})
	}
	s1.drain()
	var wantGone [3]bool
	var count int64 = -1
	killReason := ""
	switch vChoice("kill", 5) {
	case 0:
		// any valid URI is a legal reason, the router's own ones included
		killReason = []string{"my.reason", string(wamp.ErrSystemShutdown), string(wamp.CloseNormal), string(wamp.ErrGoodbyeAndOut)}[vChoice("kill.reason", 4)]
		res, er, _ := caller.metaCall(wamp.MetaProcSessionKill, wamp.List{vIDAs("kill", s1.id)}, wamp.Dict{"reason": killReason, "message": "bye"})
		vAssert("kill-yields", res != nil && er == nil)
		wantGone = [3]bool{true, false, false}
	case 1:
		res, _, _ := caller.metaCall(wamp.MetaProcSessionKillByAuthid, wamp.List{"alice"}, nil)
		vAssert("kill-by-authid-yields", res != nil && len(res.Arguments) == 1)
		if res != nil && len(res.Arguments) == 1 {
			count, _ = wamp.AsInt64(res.Arguments[0])
		}
		wantGone = [3]bool{true, true, false}
		vAssert("kill-count", count == 2)
	case 2:
		// the caller's own id / authid never kills the caller
		_, er, _ := caller.metaCall(wamp.MetaProcSessionKill, wamp.List{caller.id}, nil)
		vAssert("cannot-kill-self", er != nil && er.Error == wamp.ErrNoSuchSession)
		res, _, _ := caller.metaCall(wamp.MetaProcSessionKillByAuthid, wamp.List{"admin"}, nil)
		if res != nil && len(res.Arguments) == 1 {
			count, _ = wamp.AsInt64(res.Arguments[0])
		}
		vAssert("self-excluded-from-authid-kill", count == 0)
	case 3:
		_, er, _ := caller.metaCall(wamp.MetaProcSessionKill, wamp.List{s1.id}, wamp.Dict{"reason": "not a uri!"})
		vAssert("invalid-reason-refused", er != nil && er.Error == wamp.ErrInvalidURI)
	case 4:
		unknown := vValidID("unknown.session")
		_, exists := rl.clients[unknown]
		vAssume(!exists)
		_, er, _ := caller.metaCall(wamp.MetaProcSessionKill, wamp.List{unknown}, nil)
		vAssert("kill-unknown-session", er != nil && er.Error == wamp.ErrNoSuchSession)
	}
	vQuiesce()
	vAssert("caller-never-killed", rl.clients[caller.id] != nil)
	for i, c := range []*vClient{s1, s2, s3} {
		_, still := rl.clients[c.id]
		vAssert("exactly-the-targeted-sessions-end", still == !wantGone[i])
		if wantGone[i] {
			g, n := vFindMsg[*wamp.Goodbye](c.drain())
			vAssert("killed-session-gets-goodbye", n == 1)
			if i == 0 && n == 1 && count == -1 {
				vAssert("goodbye-carries-reason", string(g.Reason) == killReason && g.Details["message"] == any("bye"))
			}
		}
	}
	// testaments of s1: published exactly once each when it was killed, minus what it flushed
	wills := map[string]int{}
	for _, m := range obs.drain() {
		if e, ok := m.(*wamp.Event); ok && len(e.Arguments) == 1 {
			if s, ok := e.Arguments[0].(string); ok {
				wills[s]++
			}
		}
	}
	if wantGone[0] {
		wantDestroyed, wantDetached := 1, 1
		if flush == 1 {
			wantDestroyed = 0
		} else if flush == 2 {
			wantDetached = 0
		}
		vAssert("testaments-published-or-flushed-as-requested", wills["destroyed-will"] == wantDestroyed && wills["detached-will"] == wantDetached)
		vCover("testaments-at-kill")
	} else {
		vAssert("no-testament-while-alive", len(wills) == 0)
	}
	vCover("kill-checked")
}

// what a killed session held is gone from the registration and subscription
// meta API and from routing, and its disappearance is announced - whichever
// kill procedure ended it
func Harness_C18_MetaViewAfterKill() {
	r := vNewRouter(&Config{RealmConfigs: []*RealmConfig{{URI: "realm1", AnonymousAuth: true, EnableMetaKill: true}}})
	admin := vAttach(r, "realm1", wamp.Dict{"roles": vAllRoles, "authid": "admin"}, 64)
	s1 := vAttach(r, "realm1", wamp.Dict{"roles": vAllRoles, "authid": "alice"}, 64)
	s2 := vAttach(r, "realm1", wamp.Dict{"roles": vAllRoles, "authid": "bob"}, 64)
	vAssert("attached", admin != nil && s1 != nil && s2 != nil)
	if admin == nil || s1 == nil || s2 == nil {
		return
	}
	s1.send(&wamp.Register{Request: 1, Procedure: "s1.proc"})
	s1.send(&wamp.Subscribe{Request: 2, Topic: "s1.topic"})
	s1.drain()
	shared := vBool("s2-shares-the-subscription")
	if shared {
		s2.send(&wamp.Subscribe{Request: 2, Topic: "s1.topic"})
		s2.drain()
	}
	// the admin watches registration and subscription meta events
	admin.send(&wamp.Subscribe{Request: 1, Topic: "wamp.registration.", Options: wamp.Dict{"match": "prefix"}})
	admin.send(&wamp.Subscribe{Request: 2, Topic: "wamp.subscription.", Options: wamp.Dict{"match": "prefix"}})
	admin.drain()
	way := vChoice("kill-procedure", 4)
	s2Killed := false
	var rest []wamp.Message
	switch way {
	case 0:
		_, _, rest = admin.metaCall(wamp.MetaProcSessionKill, wamp.List{s1.id}, nil)
	case 1:
		_, _, rest = admin.metaCall(wamp.MetaProcSessionKillByAuthid, wamp.List{"alice"}, nil)
	case 2:
		_, _, rest = admin.metaCall(wamp.MetaProcSessionKillByAuthrole, wamp.List{"trusted"}, nil)
		s2Killed = true
	case 3:
		_, _, rest = admin.metaCall(wamp.MetaProcSessionKillAll, nil, nil)
		s2Killed = true
	}
	rest = append(rest, admin.drain()...)
	_, ng := vFindMsg[*wamp.Goodbye](s1.drain())
	vAssert("target-killed", ng == 1)
	// announced: the registration went away, the subscription lost a member
	// (and went away unless the surviving session shares it)
	var regEv, subEv []wamp.URI
	for _, t := range vTopics(rest) {
		if len(t) > 18 && t[:18] == "wamp.registration." {
			regEv = append(regEv, t)
		} else {
			subEv = append(subEv, t)
		}
	}
	vAssert("registration-end-announced-once-in-order", vSameTopics(regEv, wamp.MetaEventRegOnUnregister, wamp.MetaEventRegOnDelete))
	if shared && !s2Killed {
		vAssert("subscription-change-announced", vSameTopics(subEv, wamp.MetaEventSubOnUnsubscribe))
	} else if shared {
		vAssert("subscription-end-announced", vSameTopics(subEv, wamp.MetaEventSubOnUnsubscribe, wamp.MetaEventSubOnUnsubscribe, wamp.MetaEventSubOnDelete))
	} else {
		vAssert("subscription-end-announced", vSameTopics(subEv, wamp.MetaEventSubOnUnsubscribe, wamp.MetaEventSubOnDelete))
	}
	// the meta view
	notFound := func(res *wamp.Result) bool {
		// (nexus answers a lookup that finds nothing with the id 0)
		if res == nil {
			return false
		}
		if len(res.Arguments) == 0 || res.Arguments[0] == nil {
			return true
		}
		id, ok := wamp.AsInt64(res.Arguments[0])
		return ok && id == 0
	}
	res, _, _ := admin.metaCall(wamp.MetaProcRegLookup, wamp.List{"s1.proc"}, nil)
	vAssert("registration-no-longer-found", notFound(res))
	res, _, _ = admin.metaCall(wamp.MetaProcSubLookup, wamp.List{"s1.topic"}, nil)
	if shared && !s2Killed {
		vAssert("shared-subscription-still-found", res != nil && !notFound(res))
	} else {
		vAssert("subscription-no-longer-found", notFound(res))
	}
	res, _, _ = admin.metaCall(wamp.MetaProcSessionCount, nil, nil)
	want := int64(2)
	if s2Killed {
		want = 1
	}
	if res != nil && len(res.Arguments) == 1 {
		n, _ := wamp.AsInt64(res.Arguments[0])
		vAssert("session-count", n == want)
	}
	// and routing agrees with the meta view
	admin.send(&wamp.Call{Request: 77, Procedure: "s1.proc"})
	e, ne := vFindMsg[*wamp.Error](admin.drain())
	vAssert("routing-agrees-with-lookup", ne == 1 && e.Request == 77 && e.Error == wamp.ErrNoSuchProcedure)
	r.Close()
	vCover("meta-view-after-kill-checked")
}

// A session's on_join is an event of the moment it joined. Whatever the
// realm's workers are doing at that moment (stall exploration: the goroutine
// that carries the announcement is descheduled after its k-th synchronisation
// operation), a subscription that the session itself makes after it was
// welcomed does not receive the announcement of that very join; a subscription
// that existed before receives it exactly once.
func Harness_C18_JoinAnnouncedAsOfTheJoin() {
	r := vNewRouter(&Config{RealmConfigs: []*RealmConfig{{URI: "realm1", AnonymousAuth: true}}})
	obs := vAttach(r, "realm1", nil, 32)
	vAssert("observer-attached", obs != nil)
	if obs == nil {
		return
	}
	obs.send(&wamp.Subscribe{Request: 1, Topic: wamp.MetaEventSessionOnJoin})
	obs.drain()
	k := vChoice("stall-after", 4)
	vStallFunc("handleInboundMessages", k)
	s := vAttach(r, "realm1", nil, 32) // returns once WELCOME was received
	vAssert("attached", s != nil)
	if s == nil {
		vStallFunc("", 0)
		vStallRelease()
		return
	}
	s.send(&wamp.Subscribe{Request: 1, Topic: wamp.MetaEventSessionOnJoin})
	got := s.drain()
	vStallFunc("", 0)
	vStallRelease()
	got = append(got, s.drain()...)
	_, nsub := vFindMsg[*wamp.Subscribed](got)
	vAssert("subscribed", nsub == 1)
	_, nev := vFindMsg[*wamp.Event](got)
	vAssert("own-join-not-announced-to-a-subscription-made-after-it", nev == 0)
	_, nobs := vFindMsg[*wamp.Event](obs.drain())
	vAssert("join-announced-once-to-earlier-subscribers", nobs == 1)
	r.Close()
	vCover("join-announcement-checked")
}

// match agrees with routing: for subscriptions and registrations under every
// policy, wamp.subscription.match lists exactly the subscriptions on which a
// publication to the topic is delivered, and wamp.registration.match names
// the registration a call to the procedure is routed to
func Harness_C18_MatchAgreesWithRouting() {
	r := vNewRouter(&Config{RealmConfigs: []*RealmConfig{{URI: "realm1", AnonymousAuth: true}}})
	holder := vAttach(r, "realm1", nil, 64)
	asker := vAttach(r, "realm1", nil, 64)
	vAssert("attached", holder != nil && asker != nil)
	if holder == nil || asker == nil {
		return
	}
	type pat struct {
		uri   wamp.URI
		match string
	}
	pool := []pat{{"a.b", wamp.MatchExact}, {"a.", wamp.MatchPrefix}, {"a.b.c", wamp.MatchPrefix}, {"a..c", wamp.MatchWildcard}, {".b", wamp.MatchWildcard}, {"a.b.c.d", wamp.MatchExact}}
	probes := []wamp.URI{"a.b", "a.b.c", "a", "x.b", "a.b.c.d"}
	regs := vBool("registrations-instead-of-subscriptions")
	used := map[int]bool{}
	for k := 0; k < 3; k++ {
		i := vChoice("pattern", len(pool))
		if used[i] {
			continue
		}
		used[i] = true
		opts := wamp.Dict{}
		if pool[i].match != wamp.MatchExact {
			opts["match"] = pool[i].match
		}
		if regs {
			holder.send(&wamp.Register{Request: wamp.ID(10 + k), Procedure: pool[i].uri, Options: opts})
		} else {
			holder.send(&wamp.Subscribe{Request: wamp.ID(10 + k), Topic: pool[i].uri, Options: opts})
		}
		holder.drain()
	}
	probe := probes[vChoice("probe", len(probes))]
	if regs {
		res, _, _ := asker.metaCall(wamp.MetaProcRegMatch, wamp.List{probe}, nil)
		var matched wamp.ID
		if res != nil && len(res.Arguments) == 1 && res.Arguments[0] != nil {
			matched, _ = wamp.AsID(res.Arguments[0])
		}
		asker.send(&wamp.Call{Request: 70, Procedure: probe})
		am := asker.drain()
		inv, ninv := vFindMsg[*wamp.Invocation](holder.drain())
		if ninv == 1 {
			vAssert("registration-match-names-the-registration-the-call-is-routed-to", matched == inv.Registration)
			vCover("call-routed")
		} else {
			e, ne := vFindMsg[*wamp.Error](am)
			vAssert("unrouted-call-refused", ne == 1 && e.Error == wamp.ErrNoSuchProcedure)
			vAssert("registration-match-finds-nothing-when-no-call-is-routed", matched == 0)
		}
		r.Close()
		return
	}
	res, _, _ := asker.metaCall(wamp.MetaProcSubMatch, wamp.List{probe}, nil)
	var ids []wamp.ID
	if res != nil && len(res.Arguments) == 1 && res.Arguments[0] != nil {
		ids, _ = vIDList(res.Arguments[0])
	}
	asker.send(&wamp.Publish{Request: 70, Topic: probe})
	var delivered []wamp.ID
	for _, m := range holder.drain() {
		if e, ok := m.(*wamp.Event); ok {
			delivered = append(delivered, e.Subscription)
		}
	}
	vAssert("subscription-match-lists-as-many-as-deliver", len(ids) == len(delivered))
	for _, d := range delivered {
		vAssert("every-delivering-subscription-is-listed", vHasID(ids, d))
	}
	if len(delivered) >= 2 {
		vCover("several-subscriptions-deliver")
	}
	r.Close()
}
