package router

import (
	"github.com/gammazero/nexus/v3/transport"
	"github.com/gammazero/nexus/v3/wamp"
)

// C04 layer 1: a hostile session sends one message whose option / detail /
// argument values have arbitrary dynamic types; the router must not panic and
// must go on serving the bystander. Real router, real realm, real handlers.

type vKey struct {
	key      string
	enablers wamp.Dict
}

func vHostileDict(name string, keys []vKey) wamp.Dict {
	k := keys[vChoice(name+".key", len(keys))]
	d := wamp.Dict{}
	for ek, ev := range k.enablers {
		d[ek] = ev
	}
	d[k.key] = vAny(name + "." + k.key)
	return d
}

var vPPT = wamp.Dict{"ppt_scheme": "mqtt"}

func vBystanderServed(r *router, b *vClient) {
	b.drain()
	b.send(&wamp.Subscribe{Request: 9001, Topic: "probe.topic"})
	ms := b.drain()
	ok := false
	for _, m := range ms {
		if s, is := m.(*wamp.Subscribed); is && s.Request == 9001 {
			ok = true
		}
	}
	vAssert("bystander-still-served", ok)
}

func vC04Setup() (*router, *vClient, *vClient) { return vC04SetupHist(false) }

// with hist, b.topic is configured with event history (the broker builds one
// more event, for no subscriber in particular)
func vC04SetupHist(hist bool) (*router, *vClient, *vClient) {
	rc := &RealmConfig{URI: "realm1", AnonymousAuth: true, AllowDisclose: vBool("allowDisclose"), EnableMetaKill: true, EnableMetaModify: true}
	if hist {
		rc.TopicEventHistoryConfigs = []*TopicEventHistoryConfig{{Topic: "b.topic", MatchPolicy: wamp.MatchExact, Limit: 2}}
	}
	r := vNewRouter(&Config{RealmConfigs: []*RealmConfig{rc}})
	// the hostile session announces everything, roles without any feature, or
	// only the pub/sub roles - and uses whatever it likes afterwards
	var aHello wamp.Dict
	switch vChoice("hostile.announces", 3) {
	case 1:
		aHello = wamp.Dict{"roles": wamp.Dict{"publisher": wamp.Dict{}, "subscriber": wamp.Dict{}, "caller": wamp.Dict{}, "callee": wamp.Dict{}}}
	case 2:
		aHello = wamp.Dict{"roles": wamp.Dict{"publisher": wamp.Dict{}, "subscriber": wamp.Dict{}}}
	}
	a := vAttach(r, "realm1", aHello, 32)
	b := vAttach(r, "realm1", nil, 32)
	vAssert("attached", a != nil && b != nil)
	// b offers a procedure and a subscription so that a's messages are routed
	b.send(&wamp.Register{Request: 1, Procedure: "b.proc"})
	b.send(&wamp.Subscribe{Request: 2, Topic: "b.topic"})
	b.drain()
	return r, a, b
}

func Harness_C04_HostilePublish() {
	r, a, b := vC04SetupHist(vBool("event-history-on-the-topic"))
	keys := []vKey{{"acknowledge", nil}, {"exclude_me", nil}, {"disclose_me", nil}, {"exclude", nil}, {"eligible", nil},
		{"exclude_authid", nil}, {"eligible_authrole", nil}, {"ppt_scheme", nil}, {"ppt_serializer", vPPT}, {"ppt_cipher", vPPT}, {"ppt_keyid", vPPT}}
	a.send(&wamp.Publish{Request: 5, Topic: "b.topic", Options: vHostileDict("pub", keys), Arguments: wamp.List{1}})
	a.drain()
	vBystanderServed(r, b)
	vCover("hostile-publish-done")
}

func Harness_C04_HostileCall() {
	r, a, b := vC04Setup()
	keys := []vKey{{"timeout", nil}, {"receive_progress", nil}, {"progress", nil}, {"disclose_me", nil},
		{"ppt_scheme", nil}, {"ppt_serializer", vPPT}, {"ppt_cipher", vPPT}, {"ppt_keyid", vPPT}}
	a.send(&wamp.Call{Request: 5, Procedure: "b.proc", Options: vHostileDict("call", keys), Arguments: wamp.List{1}})
	a.drain()
	vBystanderServed(r, b)
	vCover("hostile-call-done")
}

func Harness_C04_HostileYield() {
	r, a, b := vC04Setup()
	// a calls b; b (hostile callee this time) yields with hostile options
	a.send(&wamp.Call{Request: 5, Procedure: "b.proc", Arguments: wamp.List{1}})
	var inv *wamp.Invocation
	for _, m := range b.drain() {
		if i, ok := m.(*wamp.Invocation); ok {
			inv = i
		}
	}
	vAssert("invocation-arrived", inv != nil)
	keys := []vKey{{"progress", nil}, {"ppt_scheme", nil}, {"ppt_serializer", vPPT}, {"ppt_cipher", vPPT}, {"ppt_keyid", vPPT}}
	b.send(&wamp.Yield{Request: inv.Request, Options: vHostileDict("yield", keys), Arguments: wamp.List{1}})
	b.drain()
	vBystanderServed(r, a)
	vCover("hostile-yield-done")
}

func Harness_C04_HostileRequests() {
	r, a, b := vC04Setup()
	switch vChoice("kind", 6) {
	case 0:
		a.send(&wamp.Register{Request: 5, Procedure: "a.proc", Options: vHostileDict("reg", []vKey{{"match", nil}, {"invoke", nil}, {"disclose_caller", nil}, {"forward_timeout", nil}})})
	case 1:
		a.send(&wamp.Subscribe{Request: 5, Topic: "a.topic", Options: vHostileDict("sub", []vKey{{"match", nil}})})
	case 2:
		a.send(&wamp.Call{Request: 5, Procedure: "b.proc"})
		a.send(&wamp.Cancel{Request: 5, Options: vHostileDict("cancel", []vKey{{"mode", nil}})})
	case 3:
		a.send(&wamp.Unsubscribe{Request: 5, Subscription: wamp.ID(vUint64("unsub.id"))})
	case 4:
		a.send(&wamp.Unregister{Request: 5, Registration: wamp.ID(vUint64("unreg.id"))})
	case 5:
		a.send(&wamp.Error{Type: wamp.INVOCATION, Request: wamp.ID(vUint64("err.req")), Error: "x.y", Details: vHostileDict("err", []vKey{{"k", nil}})})
	}
	a.drain()
	vBystanderServed(r, b)
	vCover("hostile-request-done")
}

// sequences of messages with reused request ids, late and duplicate answers,
// kills and departures: the router survives and keeps serving bystanders
func vC04Sequences(n int) {
	r := vNewRouter(&Config{RealmConfigs: []*RealmConfig{{URI: "realm1", AnonymousAuth: true, AllowDisclose: true, EnableMetaKill: true}}})
	a := vAttach(r, "realm1", nil, 32)
	b := vAttach(r, "realm1", nil, 32)
	c := vAttach(r, "realm1", nil, 32)
	vAssert("attached", a != nil && b != nil && c != nil)
	b.send(&wamp.Register{Request: 1, Procedure: "b.proc"})
	b.send(&wamp.Subscribe{Request: 2, Topic: "b.topic"})
	b.drain()
	var lastInv wamp.ID // request id of the INVOCATION b saw last
	bAlive := true
	seeInv := func() {
		if !bAlive {
			return
		}
		for _, m := range b.drain() {
			if i, ok := m.(*wamp.Invocation); ok {
				lastInv = i.Request
			}
		}
	}
	for k := 0; k < n; k++ {
		switch vChoice("op", 12) {
		case 0: // the same request id again and again
			a.send(&wamp.Call{Request: 5, Procedure: "b.proc", Arguments: wamp.List{k}})
		case 1:
			a.send(&wamp.Call{Request: 5, Procedure: "b.proc", Options: wamp.Dict{"progress": true}})
		case 2:
			a.send(&wamp.Call{Request: 5, Procedure: "b.proc", Options: wamp.Dict{"receive_progress": true, "timeout": 100}})
		case 3:
			a.send(&wamp.Cancel{Request: 5, Options: wamp.Dict{"mode": []string{"skip", "kill", "killnowait"}[vChoice("mode", 3)]}})
		case 4:
			if bAlive {
				b.send(&wamp.Yield{Request: lastInv, Arguments: wamp.List{"r"}})
			}
		case 5:
			if bAlive {
				b.send(&wamp.Yield{Request: lastInv, Options: wamp.Dict{"progress": true}})
			}
		case 6:
			if bAlive {
				b.send(&wamp.Error{Type: wamp.INVOCATION, Request: lastInv, Error: "app.err", Details: wamp.Dict{}})
			}
		case 7: // everybody is killed through the meta API (a survives: it is the caller)
			a.send(&wamp.Call{Request: 6, Procedure: wamp.MetaProcSessionKillAll})
			bAlive = false
			c = nil
		case 8: // traffic aimed at whatever b holds or held
			a.send(&wamp.Publish{Request: 7, Topic: "b.topic", Options: wamp.Dict{"acknowledge": true}})
		case 9:
			if bAlive {
				b.send(&wamp.Goodbye{Reason: wamp.CloseRealm, Details: wamp.Dict{}})
				bAlive = false
			}
		case 10:
			a.send(&wamp.Call{Request: 6, Procedure: wamp.MetaProcSessionKill, Arguments: wamp.List{b.id}})
			bAlive = false
		case 11:
			a.send(&wamp.Subscribe{Request: 5, Topic: "b.topic"})
			a.send(&wamp.Unsubscribe{Request: 5, Subscription: wamp.ID(vUint64("unsub.id"))})
		}
		a.drain()
		seeInv()
	}
	if c == nil {
		c = vAttach(r, "realm1", nil, 32)
		vAssert("new-session-can-attach-after-kill-all", c != nil)
	}
	if c != nil {
		vBystanderServed(r, c)
	}
	// and the hostile session itself is still served or was dropped, never stuck
	vCover("hostile-sequence-done")
}

func Harness_C04_HostileSequences_3() { vC04Sequences(3) }
func Harness_C04_HostileSequences_4() { vC04Sequences(4) }

// Stall exploration of a session's message handler: the handler that is busy
// with a's request is descheduled after its k-th synchronisation operation;
// meanwhile the recipient leaves, is dropped or killed, or the realm goes
// away; then the handler continues. Nothing panics, a bystander is served.
func Harness_C04_HandlerStall() {
	r := vNewRouter(&Config{RealmConfigs: []*RealmConfig{
		{URI: "realm1", AnonymousAuth: true, EnableMetaKill: true},
		{URI: "realm2", AnonymousAuth: true}}})
	a := vAttach(r, "realm1", nil, 32)
	b := vAttach(r, "realm1", nil, 32)
	c := vAttach(r, "realm1", nil, 32)
	other := vAttach(r, "realm2", nil, 32)
	vAssert("attached", a != nil && b != nil && c != nil && other != nil)
	b.send(&wamp.Register{Request: 1, Procedure: "b.proc"})
	b.send(&wamp.Subscribe{Request: 2, Topic: "b.topic"})
	b.drain()
	c.send(&wamp.Subscribe{Request: 2, Topic: "b.", Options: wamp.Dict{"match": "prefix"}})
	c.drain()
	req := vChoice("request", 5)
	k := vChoice("stall-after", 9)
	ev := vChoice("event", 5)
	// the descheduled goroutine: a session's message handler, or the broker /
	// dealer worker in the middle of routing
	fn := []string{"handleInboundMessages", "syncPublish", "syncCall", "metaProcedureHandler"}[vChoice("stalled-function", 4)]
	vStallFunc(fn, k)
	sent := make(chan struct{})
	go func() {
		defer close(sent)
		var m wamp.Message
		switch req {
		case 0:
			m = &wamp.Publish{Request: 5, Topic: "b.topic", Options: wamp.Dict{"acknowledge": true}, Arguments: wamp.List{1}}
		case 1:
			m = &wamp.Call{Request: 5, Procedure: "b.proc", Options: wamp.Dict{"timeout": 200}}
		case 2:
			m = &wamp.Subscribe{Request: 5, Topic: "b.topic"}
		case 3: // meta procedures: served by the realm's meta session
			m = &wamp.Call{Request: 5, Procedure: wamp.MetaProcSessionCount}
		case 4:
			m = &wamp.Call{Request: 5, Procedure: wamp.MetaProcRegListCallees, Arguments: wamp.List{wamp.ID(1)}}
		}
		select {
		case a.peer.Send() <- m:
		case <-r.stopped:
		}
	}()
	vQuiesce()
	realmGone := false
	switch ev {
	case 0:
		b.send(&wamp.Goodbye{Reason: wamp.CloseRealm, Details: wamp.Dict{}})
	case 1:
		b.peer.Close()
	case 2:
		c.send(&wamp.Call{Request: 9, Procedure: wamp.MetaProcSessionKill, Arguments: wamp.List{b.id}})
	case 3:
		done := make(chan struct{})
		go func() { r.RemoveRealm("realm1"); close(done) }()
		vQuiesce()
		vStallFunc("", 0)
		<-done
		realmGone = true
	case 4:
		done := make(chan struct{})
		go func() { r.Close(); close(done) }()
		vQuiesce()
		vStallFunc("", 0)
		<-done
		realmGone = true
	}
	vQuiesce()
	vStallFunc("", 0)
	vQuiesce()
	<-sent
	for vFireTimer() {
	}
	vQuiesce()
	if !realmGone {
		vBystanderServed(r, c)
	} else if ev == 3 {
		vBystanderServed(r, other)
	}
	vCover("handler-stall-done")
}

// meta procedures called with arguments of any shape and type: each call is
// answered exactly once (RESULT or ERROR), nothing panics, the others are served
func Harness_C04_HostileMetaArgs() {
	rc := &RealmConfig{URI: "realm1", AnonymousAuth: true, EnableMetaKill: true, EnableMetaModify: true,
		TopicEventHistoryConfigs: []*TopicEventHistoryConfig{{Topic: "h.t", MatchPolicy: wamp.MatchExact, Limit: 2}}}
	r := vNewRouter(&Config{RealmConfigs: []*RealmConfig{rc}})
	a := vAttach(r, "realm1", nil, 32)
	b := vAttach(r, "realm1", nil, 32)
	vAssert("attached", a != nil && b != nil)
	if a == nil || b == nil {
		return
	}
	b.send(&wamp.Register{Request: 1, Procedure: "b.proc"})
	b.send(&wamp.Subscribe{Request: 2, Topic: "b.topic"})
	b.send(&wamp.Publish{Request: 3, Topic: "h.t", Arguments: wamp.List{1}})
	b.drain()
	procs := []wamp.URI{
		wamp.MetaProcSessionCount, wamp.MetaProcSessionList, wamp.MetaProcSessionGet, wamp.MetaProcSessionKill,
		wamp.MetaProcSessionKillByAuthid, wamp.MetaProcSessionKillByAuthrole, wamp.MetaProcSessionKillAll, wamp.MetaProcSessionModifyDetails,
		wamp.MetaProcRegList, wamp.MetaProcRegLookup, wamp.MetaProcRegMatch, wamp.MetaProcRegGet, wamp.MetaProcRegListCallees, wamp.MetaProcRegCountCallees,
		wamp.MetaProcSubList, wamp.MetaProcSubLookup, wamp.MetaProcSubMatch, wamp.MetaProcSubGet, wamp.MetaProcSubListSubscribers, wamp.MetaProcSubCountSubscribers,
		wamp.MetaProcEventHistory, wamp.MetaProcSessionAddTestament, wamp.MetaProcSessionFlushTestaments,
	}
	proc := procs[vChoice("meta-procedure", len(procs))]
	var args wamp.List
	var kw wamp.Dict
	switch vChoice("shape", 5) {
	case 0: // nothing at all
	case 1:
		args = wamp.List{vAny("arg0")}
	case 2: // a plausible first argument, anything as the second and third
		args = wamp.List{"b.topic", vAny("arg1"), vAny("arg2")}
	case 3: // an id, anything after it
		args = wamp.List{b.id, vAny("arg1")}
	case 4:
		// (limit: its numeric encodings are the business of Harness_C20_Query)
		keys := []string{"reason", "message", "scope", "publish_options", "reverse", "from_time", "topic", "from_publication", "match"}
		kw = wamp.Dict{keys[vChoice("kwarg", len(keys))]: vAny("kwval")}
		args = wamp.List{wamp.ID(1)}
	}
	a.send(&wamp.Call{Request: 50, Procedure: proc, Arguments: args, ArgumentsKw: kw})
	n := 0
	for _, m := range a.drain() {
		switch mm := m.(type) {
		case *wamp.Result:
			if mm.Request == 50 {
				n++
			}
		case *wamp.Error:
			if mm.Request == 50 && mm.Type == wamp.CALL {
				n++
			}
		}
	}
	vAssert("meta-call-answered-exactly-once", n == 1)
	// b may have been killed on request; whoever is left is served
	probe := a
	if _, ok := r.realms["realm1"].clients[b.id]; ok {
		probe = b
	}
	vBystanderServed(r, probe)
	r.Close()
	vCover("hostile-meta-args-done")
}

// a HELLO whose details carry values of any type where roles, features,
// authmethods and identity are expected; whether or not the router welcomes
// it, nothing panics, a welcomed session can use the router, others are served
func Harness_C04_HostileHello() {
	r := vNewRouter(&Config{RealmConfigs: []*RealmConfig{{URI: "realm1", AnonymousAuth: true, AllowDisclose: true}}})
	b := vAttach(r, "realm1", nil, 32)
	vAssert("attached", b != nil)
	if b == nil {
		return
	}
	b.send(&wamp.Register{Request: 1, Procedure: "b.proc"})
	b.send(&wamp.Subscribe{Request: 2, Topic: "b.topic"})
	b.drain()
	det := wamp.Dict{"roles": vAllRoles}
	switch vChoice("hostile-position", 8) {
	case 0:
		det["roles"] = vAny("roles")
	case 1:
		det["roles"] = wamp.Dict{"callee": vAny("role"), "caller": wamp.Dict{}}
	case 2:
		f := vAny("features")
		det["roles"] = wamp.Dict{"callee": wamp.Dict{"features": f}, "subscriber": wamp.Dict{"features": f}}
	case 3:
		f := vAny("flag")
		det["roles"] = wamp.Dict{"callee": wamp.Dict{"features": wamp.Dict{"call_canceling": f, "progressive_call_results": f}},
			"caller": wamp.Dict{"features": wamp.Dict{"call_canceling": f}}, "subscriber": wamp.Dict{"features": wamp.Dict{"publisher_identification": f}}}
	case 4:
		det["authmethods"] = vAny("authmethods")
	case 5:
		v := vAny("identity")
		det["authid"] = v
		det["authrole"] = v
	case 6:
		det["transport"] = vAny("transport")
	case 7:
		v := vAny("extra")
		det["authextra"] = v
		det["session"] = v
	}
	local := vBool("in-process-peer")
	c, rp := transport.LinkedPeersQSize(16)
	var peer wamp.Peer = rp
	if !local {
		peer = &vRemoteWrap{rp}
	}
	go func() { c.Send() <- &wamp.Hello{Realm: "realm1", Details: det} }()
	err := r.AttachClient(peer, nil)
	if err == nil {
		w, ok := (<-c.Recv()).(*wamp.Welcome)
		vAssert("welcome-after-successful-attach", ok)
		if ok {
			a := &vClient{peer: c, id: w.ID}
			// it uses the router: as callee, caller, subscriber, publisher
			a.send(&wamp.Register{Request: 10, Procedure: "a.proc"})
			a.send(&wamp.Subscribe{Request: 11, Topic: "b.topic"})
			a.drain()
			b.send(&wamp.Call{Request: 20, Procedure: "a.proc", Options: wamp.Dict{"receive_progress": true, "disclose_me": true, "timeout": int64(1000)}})
			b.send(&wamp.Publish{Request: 21, Topic: "b.topic", Options: wamp.Dict{"disclose_me": true}})
			for _, m := range a.drain() {
				if inv, ok := m.(*wamp.Invocation); ok {
					a.send(&wamp.Yield{Request: inv.Request, Options: wamp.Dict{"progress": true}})
					a.send(&wamp.Yield{Request: inv.Request})
				}
			}
			a.send(&wamp.Call{Request: 12, Procedure: "b.proc", Options: wamp.Dict{"receive_progress": true}})
			a.send(&wamp.Cancel{Request: 12, Options: wamp.Dict{"mode": "kill"}})
			a.drain()
			b.send(&wamp.Call{Request: 22, Procedure: wamp.MetaProcSessionGet, Arguments: wamp.List{a.id}})
			b.send(&wamp.Call{Request: 23, Procedure: wamp.MetaProcSessionList})
			b.drain()
			vCover("welcomed")
		}
	} else {
		vCover("refused")
	}
	vBystanderServed(r, b)
	r.Close()
}
