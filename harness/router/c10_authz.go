package router

import (
	"errors"

	"github.com/gammazero/nexus/v3/wamp"
)

// C10: a message is acted upon iff the Authorizer allowed it.

type vAuthz struct {
	decision  int // 0 allow, 1 deny, 2 fail, 3 allow although something went wrong (true, err)
	armed     bool
	consulted int
	sawMeta   bool
}

func (z *vAuthz) Authorize(s *wamp.Session, m wamp.Message) (bool, error) {
	if s.ID == metaID {
		z.sawMeta = true
	}
	if !z.armed {
		return true, nil
	}
	z.consulted++
	switch z.decision {
	case 1:
		return false, nil
	case 2:
		return false, errors.New("authz backend down")
	case 3:
		return true, errors.New("policy cache stale, last known decision used")
	}
	return true, nil
}

type vTables struct{ subs, regs, calls, clients, testaments int }

func vSnapshot(rl *realm) vTables {
	return vTables{len(rl.broker.subscriptions), len(rl.dealer.registrations), len(rl.dealer.calls) + len(rl.dealer.invocations), len(rl.clients), len(rl.testaments)}
}

func Harness_C10_Authorizer() {
	z := &vAuthz{}
	localAuthz := vBool("RequireLocalAuthz")
	// authentication of local sessions and their authorization are independent settings
	rc := RealmConfig{URI: "realm1", AnonymousAuth: true, Authorizer: z, RequireLocalAuthz: localAuthz, RequireLocalAuth: vBool("RequireLocalAuth"), AllowDisclose: true}
	cfg := &Config{}
	if vBool("realm-from-template") {
		// the realm is created at the first attach from the router's template
		rc.URI = ""
		cfg.RealmTemplate = &rc
	} else {
		cfg.RealmConfigs = []*RealmConfig{&rc}
	}
	r := vNewRouter(cfg)
	a := vAttach(r, "realm1", nil, 64)
	b := vAttach(r, "realm1", nil, 64)
	vAssert("attached", a != nil && b != nil)
	rl := r.realms["realm1"]
	// b observes: a topic, the subscription/registration meta topics, a procedure
	b.send(&wamp.Subscribe{Request: 1, Topic: "t.x"})
	b.send(&wamp.Subscribe{Request: 2, Topic: "wamp.", Options: wamp.Dict{"match": "prefix"}})
	b.send(&wamp.Register{Request: 3, Procedure: "b.proc"})
	// a holds a subscription and a registration of its own, and serves nothing
	a.send(&wamp.Subscribe{Request: 4, Topic: "a.t"})
	a.send(&wamp.Register{Request: 5, Procedure: "a.proc"})
	am := a.drain()
	b.drain()
	sd, _ := vFindMsg[*wamp.Subscribed](am)
	rd, _ := vFindMsg[*wamp.Registered](am)
	vAssert("a-setup", sd != nil && rd != nil)
	// a pending call a->b, so that CANCEL has something to cancel
	a.send(&wamp.Call{Request: 6, Procedure: "b.proc"})
	a.drain()
	b.drain()

	z.decision = vChoice("decision", 4)
	z.armed = true
	before := vSnapshot(rl)
	kind := vChoice("kind", 10)
	ack := vBool("publish.ack")
	var req wamp.ID = 50
	var mtype wamp.MessageType
	switch kind {
	case 0:
		mtype = wamp.PUBLISH
		a.send(&wamp.Publish{Request: req, Topic: "t.x", Options: wamp.Dict{"acknowledge": ack}})
	case 1:
		mtype = wamp.SUBSCRIBE
		a.send(&wamp.Subscribe{Request: req, Topic: "new.topic"})
	case 2:
		mtype = wamp.UNSUBSCRIBE
		a.send(&wamp.Unsubscribe{Request: req, Subscription: sd.Subscription})
	case 3:
		mtype = wamp.REGISTER
		a.send(&wamp.Register{Request: req, Procedure: "new.proc"})
	case 4:
		mtype = wamp.UNREGISTER
		a.send(&wamp.Unregister{Request: req, Registration: rd.Registration})
	case 5:
		mtype = wamp.CALL
		a.send(&wamp.Call{Request: req, Procedure: "b.proc"})
	case 6:
		mtype = wamp.CANCEL
		req = 6
		a.send(&wamp.Cancel{Request: 6, Options: wamp.Dict{"mode": "skip"}})
	case 7:
		mtype = wamp.YIELD
		a.send(&wamp.Yield{Request: req})
	case 8: // leaving is a message like any other
		mtype = wamp.GOODBYE
		req = 0
		a.send(&wamp.Goodbye{Reason: wamp.CloseRealm, Details: wamp.Dict{}})
	case 9: // an INVOCATION error (a is not serving anything: only the gate matters)
		mtype = wamp.ERROR
		req = 0
		a.send(&wamp.Error{Type: wamp.INVOCATION, Request: 77, Error: "x.y", Details: wamp.Dict{}})
	}
	got := a.drain()
	seen := b.drain()
	z.armed = false
	consultedExpected := localAuthz // a is a local session
	vAssert("meta-session-never-consulted", !z.sawMeta)
	if !consultedExpected {
		vAssert("local-session-exempt", z.consulted == 0)
	} else {
		vAssert("consulted-once", z.consulted == 1)
	}
	if consultedExpected && (z.decision == 1 || z.decision == 2) {
		// refused: no state change, nobody else notices, exactly one ERROR
		vAssert("refused-changes-no-state", vSnapshot(rl) == before)
		vAssert("refused-invisible-to-others", len(seen) == 0)
		if kind == 0 && !ack {
			vAssert("unacknowledged-publish-dropped-silently", len(got) == 0)
		} else {
			vAssert("exactly-one-error", len(got) == 1)
			if len(got) == 1 {
				e, ok := got[0].(*wamp.Error)
				want := wamp.ErrNotAuthorized
				if z.decision == 2 {
					want = wamp.ErrAuthorizationFailed
				}
				vAssert("error-of-request-type-and-id", ok && e.Type == mtype && e.Request == req && e.Error == want)
			}
		}
		vCover("refused")
		return
	}
	// allowed (or exempt): the message was acted upon
	switch kind {
	case 0:
		_, n := vFindMsg[*wamp.Event](seen)
		vAssert("allowed-publish-delivered", n == 1)
	case 1:
		_, n := vFindMsg[*wamp.Subscribed](got)
		vAssert("allowed-subscribe", n == 1 && vSnapshot(rl).subs == before.subs+1)
	case 2:
		_, n := vFindMsg[*wamp.Unsubscribed](got)
		vAssert("allowed-unsubscribe", n == 1 && vSnapshot(rl).subs == before.subs-1)
	case 3:
		_, n := vFindMsg[*wamp.Registered](got)
		vAssert("allowed-register", n == 1 && vSnapshot(rl).regs == before.regs+1)
	case 4:
		_, n := vFindMsg[*wamp.Unregistered](got)
		vAssert("allowed-unregister", n == 1 && vSnapshot(rl).regs == before.regs-1)
	case 5:
		_, n := vFindMsg[*wamp.Invocation](seen)
		vAssert("allowed-call-routed", n == 1)
	case 6:
		e, n := vFindMsg[*wamp.Error](got)
		vAssert("allowed-cancel", n == 1 && e.Error == wamp.ErrCanceled)
	}
	vCover("allowed")
}

// an authorizer that rewrites the message: the router acts on the message in
// the form the authorizer left it
type vRewriter struct{ to wamp.URI }

func (z *vRewriter) Authorize(s *wamp.Session, m wamp.Message) (bool, error) {
	switch mm := m.(type) {
	case *wamp.Publish:
		if mm.Topic == "alias.topic" {
			mm.Topic = z.to
		}
	case *wamp.Call:
		if mm.Procedure == "alias.proc" {
			mm.Procedure = "real.proc"
		}
	}
	return true, nil
}

func Harness_C10_Rewrite() {
	to := []wamp.URI{"real.topic", "other.topic"}[vChoice("rewrite.to", 2)]
	r := vNewRouter(&Config{RealmConfigs: []*RealmConfig{{URI: "realm1", AnonymousAuth: true, Authorizer: &vRewriter{to: to}, RequireLocalAuthz: true}}})
	a := vAttach(r, "realm1", nil, 64)
	b := vAttach(r, "realm1", nil, 64)
	vAssert("attached", a != nil && b != nil)
	b.send(&wamp.Subscribe{Request: 1, Topic: "real.topic"})
	b.send(&wamp.Subscribe{Request: 2, Topic: "alias.topic"})
	b.send(&wamp.Register{Request: 3, Procedure: "real.proc"})
	b.drain()
	arg := vInt64("arg")
	a.send(&wamp.Publish{Request: 5, Topic: "alias.topic", Arguments: wamp.List{arg}})
	evs := b.drain()
	_, n := vFindMsg[*wamp.Event](evs)
	if to == "real.topic" {
		vAssert("delivered-on-the-rewritten-topic-only", n == 1)
	} else {
		vAssert("not-delivered-on-the-original-topic", n == 0)
	}
	a.send(&wamp.Call{Request: 6, Procedure: "alias.proc", Arguments: wamp.List{arg}})
	inv, ni := vFindMsg[*wamp.Invocation](b.drain())
	vAssert("call-routed-to-the-rewritten-procedure", ni == 1 && inv != nil && len(inv.Arguments) == 1 && inv.Arguments[0] == any(arg))
	vCover("rewrite-checked")
}
