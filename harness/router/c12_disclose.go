package router

import "github.com/gammazero/nexus/v3/wamp"

// C12: identity disclosure and independence of per-recipient messages.

type vC12Out struct {
	ev  [2]*wamp.Event // event received by recipient 0 / 1 (nil if none)
	n   [2]int
	pub []wamp.Message
}

// one broker, publisher + up to two recipients; r1 present or not
func vC12Run(allow bool, local [2]bool, feat [2]bool, withR1 bool, opts wamp.Dict, arg int64, r1match string) vC12Out {
	b, err := newBroker(vNopLog{}, false, allow, false, nil, nil)
	vAssert("broker-created", err == nil)
	pub := vNewSess(51, wamp.Dict{"authid": "alice", "authrole": "admin"}, nil, 16)
	var rs [2]*vSess
	for i := 0; i < 2; i++ {
		rs[i] = vNewSessKind(wamp.ID(61+i), wamp.Dict{"authid": "bob"}, vFeat("subscriber", map[string]bool{"publisher_identification": feat[i]}), 16, local[i])
	}
	b.subscribe(rs[0].s, &wamp.Subscribe{Request: 1, Topic: "t.u"})
	if withR1 {
		t := wamp.URI("t.u")
		o := wamp.Dict{}
		if r1match == wamp.MatchPrefix {
			t, o = "t.", wamp.Dict{"match": "prefix"}
		} else if r1match == wamp.MatchWildcard {
			t, o = "t.", wamp.Dict{"match": "wildcard"}
		}
		b.subscribe(rs[1].s, &wamp.Subscribe{Request: 2, Topic: t, Options: o})
	}
	vSyncBroker(b)
	rs[0].vDrain()
	rs[1].vDrain()
	b.publish(pub.s, &wamp.Publish{Request: 9, Topic: "t.u", Options: opts, Arguments: wamp.List{arg}, ArgumentsKw: wamp.Dict{"k": arg}})
	vSyncBroker(b)
	var out vC12Out
	for i := 0; i < 2; i++ {
		for _, m := range rs[i].vDrain() {
			if e, ok := m.(*wamp.Event); ok {
				out.ev[i] = e
				out.n[i]++
			}
		}
	}
	out.pub = pub.vDrain()
	return out
}

func Harness_C12_PublishDisclosure() {
	allow := vBool("allowDisclose")
	local := [2]bool{vBool("r0.local"), vBool("r1.local")}
	feat := [2]bool{vBool("r0.pubident"), vBool("r1.pubident")}
	ack := vBool("ack")
	opts := wamp.Dict{"acknowledge": ack}
	disclose := false
	if vChoice("disclose_me.present", 2) == 1 {
		disclose = vBool("disclose_me")
		opts["disclose_me"] = disclose
	}
	arg := vInt64("arg")
	r1match := vMatches[vChoice("r1.match", 3)]

	both := vC12Run(allow, local, feat, true, opts, arg, r1match)
	if disclose && !allow {
		// refused: not delivered, error only when acknowledged
		vAssert("disallowed-not-delivered", both.n[0] == 0 && both.n[1] == 0)
		if ack {
			vAssert("disallowed-one-error", len(both.pub) == 1)
			if len(both.pub) == 1 {
				e, ok := both.pub[0].(*wamp.Error)
				vAssert("option-disallowed-error", ok && e.Error == wamp.ErrOptionDisallowedDiscloseMe && e.Request == 9 && e.Type == wamp.PUBLISH)
			}
		} else {
			vAssert("disallowed-silent", len(both.pub) == 0)
		}
		vCover("disclose-refused")
		return
	}
	vAssert("both-delivered-once", both.n[0] == 1 && both.n[1] == 1)
	if both.n[0] != 1 || both.n[1] != 1 {
		return
	}
	for i := 0; i < 2; i++ {
		d := both.ev[i].Details
		_, hasID := d["publisher"]
		_, hasAuthid := d["publisher_authid"]
		_, hasRole := d["publisher_authrole"]
		want := disclose && feat[i]
		vAssert("identity-iff-requested-allowed-and-feature", hasID == want && hasAuthid == want && hasRole == want)
		if want {
			vAssert("identity-values", d["publisher"] == any(wamp.ID(51)) && d["publisher_authid"] == any("alice") && d["publisher_authrole"] == any("admin"))
			vCover("identity-disclosed")
		}
	}
	// independence: recipient 0's message is the same with and without the co-recipient
	alone := vC12Run(allow, local, feat, false, opts, arg, r1match)
	vAssert("alone-delivered-once", alone.n[0] == 1)
	if alone.n[0] == 1 {
		vAssert("details-independent-of-co-recipient", vDictEqual(alone.ev[0].Details, both.ev[0].Details))
	}
	// private copies for in-process recipients
	if local[0] {
		both.ev[0].Details["scribble"] = 1
		both.ev[0].Arguments[0] = int64(12345)
		both.ev[0].ArgumentsKw["k"] = int64(12345)
		_, leaked := both.ev[1].Details["scribble"]
		vAssert("local-recipient-has-private-details", !leaked)
		vAssert("local-recipient-has-private-payload", both.ev[1].Arguments[0] == any(arg) && both.ev[1].ArgumentsKw["k"] == any(arg))
		vCover("local-private-copy")
	}
	vCover("disclosure-checked")
}

// cleanSessionDetails never exposes transport.auth and never mutates the session's dict
func Harness_C12_CleanSessionDetails() {
	// configured through the public realm configuration
	strict := vBool("metaStrict")
	rc := &RealmConfig{URI: "realm1", AnonymousAuth: true, MetaStrict: strict}
	if strict && vBool("includeExtra") {
		rc.MetaIncludeSessionDetails = []string{"extra"}
	}
	rt := vNewRouter(&Config{RealmConfigs: []*RealmConfig{rc}})
	defer rt.Close()
	r := rt.realms["realm1"]
	details := wamp.Dict{"session": wamp.ID(7), "authid": "alice", "extra": 1, "private": 2}
	hasTransport := vBool("hasTransport")
	hasAuth := vBool("hasAuth")
	// what an embedding application handed to AttachClient as transport.auth
	// need not be a dictionary
	var authVal any
	switch vChoice("transport.auth.kind", 3) {
	case 1:
		authVal = "secret-token"
	case 2:
		authVal = []string{"secret"}
	}
	transportAsMap := vBool("transport.asPlainMap")
	otherItems := vBool("transport.hasOtherItems") // auth may be the only item of transport
	if hasTransport {
		if transportAsMap {
			t := map[string]any{}
			if otherItems {
				t["type"] = "websocket"
			}
			if hasAuth {
				t["auth"] = map[string]any{"cookie": "secret"}
				if authVal != nil {
					t["auth"] = authVal
				}
			}
			details["transport"] = t
		} else {
			t := wamp.Dict{}
			if otherItems {
				t["type"] = "websocket"
			}
			if hasAuth {
				t["auth"] = wamp.Dict{"cookie": "secret"}
				if authVal != nil {
					t["auth"] = authVal
				}
			}
			details["transport"] = t
		}
	}
	nBefore := len(details)
	out := r.cleanSessionDetails(details)
	if tr, ok := out["transport"]; ok && tr != nil {
		td, _ := wamp.AsDict(tr)
		_, leaked := td["auth"]
		vAssert("transport-auth-never-exposed", !leaked)
	}
	vAssert("session-dict-not-mutated", len(details) == nBefore)
	if hasTransport && hasAuth {
		td, _ := wamp.AsDict(details["transport"])
		_, still := td["auth"]
		vAssert("session-transport-not-mutated", still)
		vCover("auth-stripped")
	}
	if strict {
		_, p := out["private"]
		vAssert("strict-hides-nonstandard", !p)
	}
}

// caller identity in INVOCATION details
func Harness_C12_CallDisclosure() {
	allow := vBool("allowDisclose")
	d := newDealer(vNopLog{}, false, allow, false)
	trusted := vBool("callee.trusted")
	role := "user"
	if trusted {
		role = "trusted"
	}
	identFeat := vBool("callee.caller_identification")
	callee := vNewSess(71, wamp.Dict{"authrole": role}, vFeat("callee", map[string]bool{"caller_identification": identFeat}), 16)
	caller := vNewSess(72, wamp.Dict{"authid": "carol", "authrole": "ops"}, vFeat("caller", map[string]bool{"caller_identification": true}), 16)
	ropts := wamp.Dict{}
	regDisclose := false
	if vChoice("disclose_caller.present", 2) == 1 {
		regDisclose = vBool("disclose_caller")
		ropts["disclose_caller"] = regDisclose
	}
	d.register(callee.s, &wamp.Register{Request: 1, Procedure: "p.q", Options: ropts})
	vSyncDealer(d)
	rr := callee.vDrain()
	vAssert("register-reply", len(rr) == 1)
	if regDisclose && !allow && !trusted {
		e, ok := rr[0].(*wamp.Error)
		vAssert("disclose-caller-refused", ok && e.Error == wamp.ErrOptionDisallowedDiscloseMe)
		vCover("disclose-caller-refused")
		return
	}
	_, ok := rr[0].(*wamp.Registered)
	vAssert("registered", ok)
	copts := wamp.Dict{}
	discloseMe := false
	if vChoice("disclose_me.present", 2) == 1 {
		discloseMe = vBool("disclose_me")
		copts["disclose_me"] = discloseMe
	}
	d.call(caller.s, &wamp.Call{Request: 5, Procedure: "p.q", Options: copts})
	vSyncDealer(d)
	im := callee.vDrain()
	cm := caller.vDrain()
	if !regDisclose && discloseMe && !allow {
		vAssert("disclose-me-refused-not-delivered", len(im) == 0 && len(cm) == 1)
		if len(cm) == 1 {
			e, ok := cm[0].(*wamp.Error)
			vAssert("disclose-me-refused-error", ok && e.Error == wamp.ErrOptionDisallowedDiscloseMe && e.Request == 5 && e.Type == wamp.CALL)
		}
		vCover("disclose-me-refused")
		return
	}
	vAssert("invocation-delivered", len(im) == 1 && len(cm) == 0)
	if len(im) != 1 {
		return
	}
	inv, ok := im[0].(*wamp.Invocation)
	vAssert("is-invocation", ok)
	if !ok {
		return
	}
	_, hasID := inv.Details["caller"]
	_, hasAuthid := inv.Details["caller_authid"]
	want := regDisclose || (discloseMe && allow && identFeat)
	vAssert("caller-identity-iff-allowed", hasID == want && hasAuthid == want)
	if want {
		vAssert("caller-identity-values", inv.Details["caller"] == any(wamp.ID(72)) && inv.Details["caller_authid"] == any("carol"))
		vCover("caller-disclosed")
	}
}

// shared registration: what one callee is told about the caller does not
// depend on which other callees joined or left the registration
func Harness_C12_SharedRegistrationDisclosure() {
	allow := vBool("allowDisclose")
	d := newDealer(vNopLog{}, false, allow, false)
	policy := []string{"first", "last", "roundrobin"}[vChoice("invoke", 3)]
	var trusted, feat, asked [2]bool
	var callee [2]*vSess
	for k := 0; k < 2; k++ {
		trusted[k] = vBool("callee.trusted")
		feat[k] = vBool("callee.caller_identification")
		role := "user"
		if trusted[k] {
			role = "trusted"
		}
		callee[k] = vNewSess(wamp.ID(71+k), wamp.Dict{"authrole": role}, vFeat("callee", map[string]bool{"caller_identification": feat[k], "shared_registration": true}), 16)
	}
	caller := vNewSess(75, wamp.Dict{"authid": "carol", "authrole": "ops"}, vFeat("caller", map[string]bool{"caller_identification": true}), 16)
	discloseMe := vBool("disclose_me")
	if discloseMe && !allow {
		return // refused calls: Harness_C12_CallDisclosure
	}
	register := func(k int) bool {
		o := wamp.Dict{"invoke": policy}
		if vChoice("disclose_caller.present", 2) == 1 {
			asked[k] = vBool("disclose_caller")
			o["disclose_caller"] = asked[k]
		}
		d.register(callee[k].s, &wamp.Register{Request: wamp.ID(1 + k), Procedure: "p.q", Options: o})
		vSyncDealer(d)
		rr := callee[k].vDrain()
		vAssert("register-reply", len(rr) == 1)
		if asked[k] && !allow && !trusted[k] {
			e, ok := rr[0].(*wamp.Error)
			vAssert("disclose-caller-refused", ok && e.Error == wamp.ErrOptionDisallowedDiscloseMe)
			return false
		}
		_, ok := rr[0].(*wamp.Registered)
		vAssert("registered", ok)
		return ok
	}
	req := wamp.ID(100)
	// call returns which callee was invoked and whether it was told who calls
	call := func() (int, bool) {
		req++
		d.call(caller.s, &wamp.Call{Request: req, Procedure: "p.q", Options: wamp.Dict{"disclose_me": discloseMe}})
		vSyncDealer(d)
		vAssert("caller-hears-nothing-yet", len(caller.vDrain()) == 0)
		for k := 0; k < 2; k++ {
			im := callee[k].vDrain()
			if len(im) == 0 {
				continue
			}
			inv, ok := im[0].(*wamp.Invocation)
			vAssert("one-invocation", ok && len(im) == 1)
			if !ok {
				return -1, false
			}
			_, hasID := inv.Details["caller"]
			_, hasAuthid := inv.Details["caller_authid"]
			_, hasRole := inv.Details["caller_authrole"]
			vAssert("identity-fields-together", hasID == hasAuthid && hasID == hasRole)
			// finish the call so that the next one starts from a clean slate
			d.yield(callee[k].s, &wamp.Yield{Request: inv.Request})
			vSyncDealer(d)
			caller.vDrain()
			return k, hasID
		}
		vAssert("call-routed", false)
		return -1, false
	}
	if !register(0) {
		return
	}
	who, told0 := call()
	vAssert("only-callee-invoked", who == 0)
	want0 := asked[0] || (discloseMe && allow && feat[0])
	vAssert("caller-identity-iff-allowed", told0 == want0)
	// a second callee joins (its own disclose_caller request may be granted or refused)
	joined := register(1)
	for i := 0; i < 2; i++ {
		who, told := call()
		if who == 0 {
			vAssert("first-callee-unaffected-by-co-callee", told == told0)
		} else if who == 1 {
			vAssert("second-callee-told-only-if-requested-and-allowed", vImplies(told, asked[0] || (joined && asked[1]) || (discloseMe && allow && feat[1])))
			vCover("second-callee-invoked")
		}
	}
	if joined {
		d.removeSession(callee[1].s)
		vSyncDealer(d)
		who, told := call()
		vAssert("first-callee-again", who == 0)
		vAssert("first-callee-unaffected-after-co-callee-left", told == told0)
		vCover("co-callee-joined-and-left")
	}
}
