package router

import "github.com/gammazero/nexus/v3/wamp"

// C03: registrations through the real REGISTER path, then calls; the callee
// that receives each INVOCATION is compared with a reference of the matching
// and invocation-policy rules.

type vRegRec struct {
	uri     vURI
	match   string
	policy  string
	id      wamp.ID
	callees []int // session indexes in registration order
	next    int   // round-robin cursor (reference)
}

var vPolicies = []string{"", wamp.InvokeSingle, wamp.InvokeFirst, wamp.InvokeLast, wamp.InvokeRoundRobin, wamp.InvokeRandom}

func vURILen(u vURI) int { return len(string(u.str())) }

// reference: best matching registration index, or -1; ties reported via tie.
func vRefBest(regs []*vRegRec, proc vURI) (cands []int) {
	// exact first
	for i, r := range regs {
		if len(r.callees) > 0 && r.match != wamp.MatchPrefix && r.match != wamp.MatchWildcard && vSameURI(proc, r.uri) {
			return []int{i}
		}
	}
	best := -1
	for i, r := range regs {
		if len(r.callees) > 0 && r.match == wamp.MatchPrefix && vRefPrefix(proc, r.uri) {
			l := vURILen(r.uri)
			if l > best {
				best = l
				cands = []int{i}
			} else if l == best {
				cands = append(cands, i)
			}
		}
	}
	if len(cands) > 0 {
		return cands
	}
	for i, r := range regs {
		if len(r.callees) > 0 && r.match == wamp.MatchWildcard && vRefWildcard(proc, r.uri) {
			l := vURILen(r.uri)
			if l > best {
				best = l
				cands = []int{i}
			} else if l == best {
				cands = append(cands, i)
			}
		}
	}
	return cands
}

func vC03(nReg, nShapes, nCalls int, withUnregister bool, vPolicies []string) {
	d := newDealer(vNopLog{}, false, true, false)
	feats := map[string]bool{"call_canceling": true, "shared_registration": true}
	sess := []*vSess{
		vNewSess(31, nil, vFeat("callee", feats), 32),
		vNewSess(32, nil, vFeat("callee", feats), 32),
	}
	caller := vNewSess(40, nil, vFeat("caller", map[string]bool{"call_canceling": true}), 32)

	var regs []*vRegRec
	for k := 0; k < nReg; k++ {
		si := vChoice("reg.sess", len(sess))
		u := vMkURI("reg.uri", nShapes)
		m := vMatches[vChoice("reg.match", 3)]
		pol := vPolicies[vChoice("reg.policy", len(vPolicies))]
		opts := wamp.Dict{}
		if m != wamp.MatchExact {
			opts["match"] = m
		}
		if pol != "" {
			opts["invoke"] = pol
		}
		req := wamp.ID(100 + k)
		d.register(sess[si].s, &wamp.Register{Request: req, Procedure: u.str(), Options: opts})
		vSyncDealer(d)
		rep := sess[si].vDrain()
		vAssert("register-one-reply", len(rep) == 1)
		if !u.validFor(m) {
			e, ok := rep[0].(*wamp.Error)
			vAssert("register-invalid-uri", ok && e.Error == wamp.ErrInvalidURI && e.Request == req && e.Type == wamp.REGISTER)
			continue
		}
		var existing *vRegRec
		for _, r := range regs {
			if len(r.callees) > 0 && r.match == m && vSameURI(r.uri, u) {
				existing = r
			}
		}
		if existing == nil {
			rd, ok := rep[0].(*wamp.Registered)
			vAssert("registered", ok && rd.Request == req)
			for _, r := range regs {
				vAssert("fresh-registration-id", r.id != rd.Registration)
			}
			regs = append(regs, &vRegRec{uri: u, match: m, policy: pol, id: rd.Registration, callees: []int{si}})
			continue
		}
		shareable := existing.policy != "" && existing.policy != wamp.InvokeSingle && existing.policy == pol
		if !shareable {
			e, ok := rep[0].(*wamp.Error)
			vAssert("procedure-already-exists", ok && e.Error == wamp.ErrProcedureAlreadyExists && e.Request == req)
			continue
		}
		rd, ok := rep[0].(*wamp.Registered)
		vAssert("shared-registered", ok && rd.Request == req && rd.Registration == existing.id)
		already := false
		for _, c := range existing.callees {
			if c == si {
				already = true
			}
		}
		if !already {
			// a session is a member of a registration at most once: it holds one
			// registration id and one UNREGISTER must remove it completely
			existing.callees = append(existing.callees, si)
		} else {
			vCover("repeated-registration-same-session")
		}
		vCover("shared-registration")
	}

	if withUnregister && len(regs) > 0 {
		// one session unregisters one registration id (possibly not its own)
		ui := vChoice("unreg.sess", len(sess))
		ri := vChoice("unreg.reg", len(regs))
		r := regs[ri]
		d.unregister(sess[ui].s, &wamp.Unregister{Request: 500, Registration: r.id})
		vSyncDealer(d)
		rep := sess[ui].vDrain()
		vAssert("unregister-one-reply", len(rep) == 1)
		member := false
		for _, c := range r.callees {
			if c == ui {
				member = true
			}
		}
		if member {
			_, ok := rep[0].(*wamp.Unregistered)
			vAssert("unregistered", ok)
			// after UNREGISTERED no further call is routed to that session
			var rest []int
			for _, c := range r.callees {
				if c != ui {
					rest = append(rest, c)
				}
			}
			r.callees = rest
			vCover("unregistered-member")
		} else {
			// UNREGISTER by a session that is not a callee of that registration:
			// whatever the reply, the registration's real callees are unaffected
			// (checked by the calls below)
			vCover("unregister-by-non-member")
		}
	}

	// restricted wamp.* procedures cannot be registered by clients
	d.register(sess[0].s, &wamp.Register{Request: 600, Procedure: "wamp.session.list"})
	vSyncDealer(d)
	wr := sess[0].vDrain()
	vAssert("wamp-uri-refused", len(wr) == 1)
	if len(wr) == 1 {
		e, ok := wr[0].(*wamp.Error)
		vAssert("wamp-uri-refused-error", ok && e.Error == wamp.ErrInvalidURI)
	}

	proc := vMkURI("call.uri", 3)
	usedReq := map[int][]wamp.ID{}
	for c := 0; c < nCalls; c++ {
		arg := vInt64("call.arg")
		creq := wamp.ID(700 + c)
		d.call(caller.s, &wamp.Call{Request: creq, Procedure: proc.str(), Arguments: wamp.List{arg}})
		vSyncDealer(d)
		cands := vRefBest(regs, proc)
		got0, got1 := sess[0].vDrain(), sess[1].vDrain()
		cm := caller.vDrain()
		if len(cands) == 0 {
			vAssert("no-such-procedure", len(cm) == 1 && len(got0) == 0 && len(got1) == 0)
			if len(cm) == 1 {
				e, ok := cm[0].(*wamp.Error)
				vAssert("no-such-procedure-error", ok && e.Error == wamp.ErrNoSuchProcedure && e.Request == creq && e.Type == wamp.CALL)
			}
			continue
		}
		vAssert("exactly-one-invocation", len(got0)+len(got1) == 1 && len(cm) == 0)
		if len(got0)+len(got1) != 1 {
			continue
		}
		target := 0
		var m wamp.Message
		if len(got1) == 1 {
			target, m = 1, got1[0]
		} else {
			m = got0[0]
		}
		inv, ok := m.(*wamp.Invocation)
		vAssert("is-invocation", ok)
		if !ok {
			continue
		}
		// which candidate registration was used
		var r *vRegRec
		for _, ci := range cands {
			if regs[ci].id == inv.Registration {
				r = regs[ci]
			}
		}
		vAssert("best-matching-registration", r != nil)
		if r == nil {
			continue
		}
		vAssert("payload-intact", len(inv.Arguments) == 1 && inv.Arguments[0] == any(arg))
		for _, q := range usedReq[target] {
			vAssert("fresh-invocation-request-id", q != inv.Request)
		}
		usedReq[target] = append(usedReq[target], inv.Request)
		n := len(r.callees)
		switch {
		case n == 1 || r.policy == "" || r.policy == wamp.InvokeSingle || r.policy == wamp.InvokeFirst:
			vAssert("policy-first/single", target == r.callees[0])
		case r.policy == wamp.InvokeLast:
			vAssert("policy-last", target == r.callees[n-1])
		case r.policy == wamp.InvokeRoundRobin:
			if r.next >= n {
				r.next = 0
			}
			vAssert("policy-roundrobin", target == r.callees[r.next])
			r.next++
			vCover("roundrobin-call")
		default: // random: any member
			member := false
			for _, ci := range r.callees {
				if ci == target {
					member = true
				}
			}
			vAssert("policy-random-member", member)
		}
		// the callee answers; the result reaches the caller only, payload intact;
		// the same answer from the other session has no effect
		yarg := vInt64("yield.arg")
		d.yield(sess[1-target].s, &wamp.Yield{Request: inv.Request, Arguments: wamp.List{yarg}})
		vSyncDealer(d)
		vAssert("foreign-yield-no-effect", len(caller.vDrain()) == 0)
		d.yield(sess[target].s, &wamp.Yield{Request: inv.Request, Arguments: wamp.List{yarg}})
		vSyncDealer(d)
		res := caller.vDrain()
		vAssert("one-result", len(res) == 1)
		if len(res) == 1 {
			rs, ok := res[0].(*wamp.Result)
			vAssert("result-forwarded-intact", ok && rs.Request == creq && len(rs.Arguments) == 1 && rs.Arguments[0] == any(yarg))
		}
		vAssert("callees-silent-after-result", len(sess[0].vDrain()) == 0 && len(sess[1].vDrain()) == 0)
		vCover("call-routed")
	}
}

var vPolQuick = []string{"", wamp.InvokeLast, wamp.InvokeRoundRobin, wamp.InvokeRandom}

func Harness_C03_Routing_Quick()    { vC03(2, 3, 1, false, vPolQuick) }
func Harness_C03_Unregister_Quick() { vC03(2, 1, 2, true, vPolQuick) }
func Harness_C03_Routing_Thorough() { vC03(2, 6, 3, true, vPolicies) }
func Harness_C03_Three_Thorough()   { vC03(3, 2, 3, true, vPolQuick) }

// a registration shared by three callees under policy first / last /
// round-robin, with callees unregistering or leaving in any order: "first"
// and "last" always mean registration order among the callees still present
func Harness_C03_SharedOrder() {
	d := newDealer(vNopLog{}, false, true, false)
	policy := []string{wamp.InvokeFirst, wamp.InvokeLast, wamp.InvokeRoundRobin}[vChoice("invoke", 3)]
	caller := vNewSess(40, nil, vFeat("caller", map[string]bool{}), 32)
	var callee [3]*vSess
	var regID wamp.ID
	for k := 0; k < 3; k++ {
		callee[k] = vNewSess(wamp.ID(41+k), nil, vFeat("callee", map[string]bool{"shared_registration": true}), 32)
		d.register(callee[k].s, &wamp.Register{Request: 1, Procedure: "p.q", Options: wamp.Dict{"invoke": policy}})
		vSyncDealer(d)
		rg, n := vFindMsg[*wamp.Registered](callee[k].vDrain())
		vAssert("registered", n == 1)
		if n != 1 {
			return
		}
		vAssert("one-shared-registration", k == 0 || rg.Registration == regID)
		regID = rg.Registration
	}
	present := []int{0, 1, 2} // registration order
	req := wamp.ID(100)
	// call returns the index of the invoked callee
	call := func() int {
		req++
		d.call(caller.s, &wamp.Call{Request: req, Procedure: "p.q"})
		vSyncDealer(d)
		who := -1
		for k := 0; k < 3; k++ {
			for _, m := range callee[k].vDrain() {
				if inv, ok := m.(*wamp.Invocation); ok {
					vAssert("exactly-one-invocation-per-call", who == -1)
					who = k
					d.yield(callee[k].s, &wamp.Yield{Request: inv.Request})
				}
			}
		}
		vSyncDealer(d)
		_, nres := vFindMsg[*wamp.Result](caller.vDrain())
		vAssert("call-completed", nres == 1)
		return who
	}
	check := func() {
		switch policy {
		case wamp.InvokeFirst:
			vAssert("first-is-the-earliest-registered-callee-present", call() == present[0])
		case wamp.InvokeLast:
			vAssert("last-is-the-latest-registered-callee-present", call() == present[len(present)-1])
		default:
			// one round reaches every callee present exactly once
			seen := map[int]int{}
			for i := 0; i < len(present); i++ {
				seen[call()]++
			}
			for _, k := range present {
				vAssert("round-robin-reaches-each-present-callee-once-per-round", seen[k] == 1)
			}
		}
	}
	check()
	for round := 0; round < 2; round++ {
		i := vChoice("remove", len(present))
		k := present[i]
		if vBool("leaves") {
			d.removeSession(callee[k].s)
		} else {
			d.unregister(callee[k].s, &wamp.Unregister{Request: 9, Registration: regID})
		}
		vSyncDealer(d)
		callee[k].vDrain()
		present = append(present[:i:i], present[i+1:]...)
		check()
	}
	vCover("shared-order-checked")
}
