package router

import (
	"github.com/gammazero/nexus/v3/transport"
	"github.com/gammazero/nexus/v3/wamp"
)

// C06: Router.Close and RemoveRealm are safe at any moment.

func vGotShutdownOrClosed(c *vClient) bool {
	vQuiesce()
	for {
		select {
		case m, ok := <-c.peer.Recv():
			if !ok {
				return true // transport closed
			}
			if g, is := m.(*wamp.Goodbye); is && g.Reason == wamp.ErrSystemShutdown {
				return true
			}
		default:
			return false
		}
	}
}

func Harness_C06_Close() {
	vGoroutineMark()
	r := vNewRouter(&Config{RealmConfigs: []*RealmConfig{{URI: "realm1", AnonymousAuth: true}, {URI: "realm2", AnonymousAuth: true}}})
	a := vAttach(r, "realm1", nil, 64)
	b := vAttach(r, "realm1", nil, 64)
	c := vAttach(r, "realm2", nil, 64)
	vAssert("attached", a != nil && b != nil && c != nil)
	b.send(&wamp.Register{Request: 1, Procedure: "b.proc"})
	b.drain()
	situation := vChoice("situation", 7)
	switch situation {
	case 0: // idle sessions
	case 1: // subscriptions and a registration
		a.send(&wamp.Subscribe{Request: 2, Topic: "t"})
		a.drain()
	case 2: // a pending call with a router-side timeout
		a.send(&wamp.Call{Request: 3, Procedure: "b.proc", Options: wamp.Dict{"timeout": int64(500)}})
		a.drain()
		b.drain()
	case 3: // a pending call, no timeout
		a.send(&wamp.Call{Request: 3, Procedure: "b.proc"})
		a.drain()
		b.drain()
	case 4: // a pending call with a long router-side timeout whose caller has left
		a.send(&wamp.Call{Request: 3, Procedure: "b.proc", Options: wamp.Dict{"timeout": int64(2000)}})
		a.drain()
		b.drain()
		a.send(&wamp.Goodbye{Reason: wamp.CloseRealm, Details: wamp.Dict{}})
		a.drain()
	case 5: // the same, the callee has left
		a.send(&wamp.Call{Request: 3, Procedure: "b.proc", Options: wamp.Dict{"timeout": int64(2000)}})
		a.drain()
		b.drain()
		b.send(&wamp.Goodbye{Reason: wamp.CloseRealm, Details: wamp.Dict{}})
		b.drain()
		a.drain()
	case 6: // a finished progressive call invocation whose chunks carried a long timeout
		a.send(&wamp.Call{Request: 3, Procedure: "b.proc", Options: wamp.Dict{"progress": true, "timeout": int64(5000)}})
		a.send(&wamp.Call{Request: 3, Procedure: "b.proc", Options: wamp.Dict{"progress": true}})
		a.send(&wamp.Call{Request: 3, Procedure: "b.proc", Options: wamp.Dict{}})
		a.drain()
		inv, n := vFindMsg[*wamp.Invocation](b.drain())
		vAssert("chunks-invoked", n == 3)
		if n > 0 {
			b.send(&wamp.Yield{Request: inv.Request})
		}
		_, nres := vFindMsg[*wamp.Result](a.drain())
		vAssert("progressive-call-finished", nres == 1)
	}
	t0 := vNow()
	r.Close()
	// Close does not wait for anybody's timeout
	vAssert("close-returns-without-waiting-for-call-timeouts", vNow()-t0 < 1500*1000000)
	vCover("close-returned")
	if situation == 4 {
		a = c // a has left already
	}
	vAssert("client-a-told-shutdown", vGotShutdownOrClosed(a))
	if situation != 5 {
		vAssert("client-b-told-shutdown", vGotShutdownOrClosed(b))
	}
	vAssert("client-c-told-shutdown", vGotShutdownOrClosed(c))
	// a timer of the call that was pending may still expire: never a panic later
	for vFireTimer() {
	}
	vQuiesce()
	// later attach attempts are refused, not a crash
	cl, rp := transport.LinkedPeersQSize(8)
	go func() { cl.Send() <- &wamp.Hello{Realm: "realm1", Details: wamp.Dict{"roles": vAllRoles}} }()
	err := r.AttachClient(rp, nil)
	vAssert("attach-after-close-refused", err != nil)
	vQuiesce()
	vAssert("no-router-goroutine-left", vGoroutinesSinceMark() <= 0)
	vCover("close-checked")
}

func Harness_C06_RemoveRealm() {
	r := vNewRouter(&Config{RealmConfigs: []*RealmConfig{{URI: "realm1", AnonymousAuth: true}, {URI: "realm2", AnonymousAuth: true}}})
	a := vAttach(r, "realm1", nil, 64)
	b := vAttach(r, "realm1", nil, 64)
	c := vAttach(r, "realm2", nil, 64)
	c2 := vAttach(r, "realm2", nil, 64)
	vAssert("attached", a != nil && b != nil && c != nil && c2 != nil)
	b.send(&wamp.Register{Request: 1, Procedure: "b.proc"})
	c2.send(&wamp.Subscribe{Request: 1, Topic: "t"})
	b.drain()
	c2.drain()
	if vBool("pending-call-with-timeout") {
		a.send(&wamp.Call{Request: 3, Procedure: "b.proc", Options: wamp.Dict{"timeout": int64(500)}})
		a.drain()
		b.drain()
	}
	vGoroutineMark()
	r.RemoveRealm("realm1")
	vCover("remove-returned")
	vAssert("client-a-told-shutdown", vGotShutdownOrClosed(a))
	vAssert("client-b-told-shutdown", vGotShutdownOrClosed(b))
	for vFireTimer() {
	}
	vQuiesce()
	// the other realm is unaffected
	c.send(&wamp.Publish{Request: 5, Topic: "t", Arguments: wamp.List{"x"}})
	_, n := vFindMsg[*wamp.Event](c2.drain())
	vAssert("other-realm-still-served", n == 1)
	// attach to the removed realm is refused
	cl, rp := transport.LinkedPeersQSize(8)
	go func() { cl.Send() <- &wamp.Hello{Realm: "realm1", Details: wamp.Dict{"roles": vAllRoles}} }()
	err := r.AttachClient(rp, nil)
	vAssert("attach-to-removed-realm-refused", err != nil)
	vCover("remove-checked")
}

// Close racing with traffic: every interleaving with at most `budget`
// preemptions of Close() against one client request and one disconnect.
func vC06Race(budget int) {
	r := vNewRouter(&Config{RealmConfigs: []*RealmConfig{{URI: "realm1", AnonymousAuth: true}}})
	a := vAttach(r, "realm1", nil, 64)
	b := vAttach(r, "realm1", nil, 64)
	vAssert("attached", a != nil && b != nil)
	b.send(&wamp.Register{Request: 1, Procedure: "b.proc"})
	b.send(&wamp.Subscribe{Request: 2, Topic: "t"})
	b.drain()
	kind := vChoice("traffic", 4)
	vSetPreempt(budget)
	done := make(chan struct{})
	go func() {
		defer close(done)
		var m wamp.Message
		switch kind {
		case 0:
			m = &wamp.Publish{Request: 5, Topic: "t", Options: wamp.Dict{"acknowledge": true}}
		case 1:
			m = &wamp.Call{Request: 5, Procedure: "b.proc", Options: wamp.Dict{"timeout": int64(100)}}
		case 2:
			m = &wamp.Subscribe{Request: 5, Topic: "u"}
		case 3:
			m = &wamp.Goodbye{Reason: wamp.CloseRealm, Details: wamp.Dict{}}
		}
		// the handler may already be gone: do not wait forever
		select {
		case a.peer.Send() <- m:
		case <-r.stopped:
		}
	}()
	r.Close()
	vSetPreempt(0)
	<-done
	for vFireTimer() {
	}
	vQuiesce()
	vAssert("client-b-told-shutdown", vGotShutdownOrClosed(b))
	vCover("race-done")
}

func Harness_C06_CloseRace_1() { vC06Race(1) }
func Harness_C06_CloseRace_2() { vC06Race(2) }

func Harness_C06_CloseRace_3() { vC06Race(3) }

// A publication that is in flight inside a handler while the realm shuts down.
// The window is held open deterministically with a PublishFilterFactory (a
// public configuration hook that runs in the publisher's handler goroutine).
func Harness_C06_CloseDuringPublish() {
	entered := make(chan struct{})
	release := make(chan struct{})
	ff := func(msg *wamp.Publish) PublishFilter {
		if msg.Topic == "gate.topic" {
			close(entered)
			<-release
		}
		return nil
	}
	r := vNewRouter(&Config{RealmConfigs: []*RealmConfig{{URI: "realm1", AnonymousAuth: true, PublishFilterFactory: ff}}})
	a := vAttach(r, "realm1", nil, 64)
	b := vAttach(r, "realm1", nil, 64)
	vAssert("attached", a != nil && b != nil)
	b.send(&wamp.Subscribe{Request: 1, Topic: "gate.topic"})
	b.drain()
	a.send(&wamp.Publish{Request: 2, Topic: "gate.topic", Arguments: wamp.List{"x"}})
	<-entered // a's handler is now inside broker.publish
	closed := make(chan struct{})
	go func() {
		r.Close()
		close(closed)
	}()
	// let the shutdown proceed as far as it can: b's handler exits and closes b's peer
	vQuiesce()
	close(release) // the publication continues
	<-closed
	vQuiesce()
	vCover("close-during-publish-done")
}

// A client attaching while the router closes (static realm or a realm made
// from the template): either it is refused, or it is part of the shutdown;
// nothing of the router survives Close.
func vC06AttachRace(budget int) {
	vGoroutineMark()
	cfg := &Config{RealmConfigs: []*RealmConfig{{URI: "realm1", AnonymousAuth: true}}}
	template := vBool("realm-template")
	if template {
		cfg.RealmTemplate = &RealmConfig{AnonymousAuth: true}
	}
	r := vNewRouter(cfg)
	a := vAttach(r, "realm1", nil, 64)
	vAssert("attached", a != nil)
	realmURI := wamp.URI("realm1")
	if template && vBool("attach-to-new-realm") {
		realmURI = "realm.new"
	}
	cl, rp := transport.LinkedPeersQSize(8)
	vSetPreempt(budget)
	var aerr error
	done := make(chan struct{})
	go func() {
		defer close(done)
		go func() { cl.Send() <- &wamp.Hello{Realm: realmURI, Details: wamp.Dict{"roles": vAllRoles, "authid": "late"}} }()
		aerr = r.AttachClient(rp, nil)
	}()
	r.Close()
	vSetPreempt(0)
	<-done
	vQuiesce()
	// everything the late client was sent (a GOODBYE may precede the WELCOME
	// when the shutdown overtakes the attach: the property does not order them)
	welcomed, told := false, false
drain:
	for {
		select {
		case m, ok := <-cl.Recv():
			if !ok {
				told = true // transport closed
				break drain
			}
			switch mm := m.(type) {
			case *wamp.Welcome:
				welcomed = true
			case *wamp.Abort:
				told = true
			case *wamp.Goodbye:
				if mm.Reason == wamp.ErrSystemShutdown {
					told = true
				}
			}
		default:
			break drain
		}
	}
	vAssert("late-client-refused-or-shut-down", told)
	vAssert("welcome-iff-attach-succeeded", welcomed == (aerr == nil))
	vAssert("client-a-told-shutdown", vGotShutdownOrClosed(a))
	vAssert("no-realm-survives-close", len(r.realms) == 0)
	vAssert("no-router-goroutine-left", vGoroutinesSinceMark() <= 0)
	if welcomed {
		vCover("attached-during-close(schedule)")
	}
	vCover("attach-race-done")
}

func Harness_C06_AttachRace_2() { vC06AttachRace(2) }
func Harness_C06_AttachRace_3() { vC06AttachRace(3) }

// An attach request that arrives while the Close action is busy (held open
// deterministically by a publication inside a handler): it is served after
// Close finished its action, and must still be refused.
func Harness_C06_AttachDuringClose() {
	entered := make(chan struct{})
	release := make(chan struct{})
	ff := func(msg *wamp.Publish) PublishFilter {
		if msg.Topic == "gate.topic" {
			close(entered)
			<-release
		}
		return nil
	}
	cfg := &Config{RealmConfigs: []*RealmConfig{{URI: "realm1", AnonymousAuth: true, PublishFilterFactory: ff}}}
	template := vBool("realm-template")
	if template {
		cfg.RealmTemplate = &RealmConfig{AnonymousAuth: true}
	}
	vGoroutineMark()
	r := vNewRouter(cfg)
	a := vAttach(r, "realm1", nil, 64)
	vAssert("attached", a != nil)
	realmURI := wamp.URI("realm1")
	if template && vBool("attach-to-new-realm") {
		realmURI = "realm.new"
	}
	a.send(&wamp.Publish{Request: 2, Topic: "gate.topic", Arguments: wamp.List{"x"}})
	<-entered // a's handler is busy: Close will have to wait for it
	closed := make(chan struct{})
	go func() {
		r.Close()
		close(closed)
	}()
	vQuiesce() // Close is now inside its router action, waiting for a's handler
	cl, rp := transport.LinkedPeersQSize(8)
	var aerr error
	attached := make(chan struct{})
	addRealm := vBool("late-request-is-AddRealm")
	go func() {
		defer close(attached)
		if addRealm {
			aerr = r.AddRealm(&RealmConfig{URI: "realm.late", AnonymousAuth: true})
			return
		}
		go func() { cl.Send() <- &wamp.Hello{Realm: realmURI, Details: wamp.Dict{"roles": vAllRoles, "authid": "late"}} }()
		aerr = r.AttachClient(rp, nil)
	}()
	vQuiesce() // the attach request is parked behind the Close action
	close(release)
	<-closed
	<-attached
	vQuiesce()
	vAssert("attach-during-close-refused", aerr != nil)
	welcomed := false
	for !addRealm {
		m, ok := <-cl.Recv()
		if !ok {
			break
		}
		if _, is := m.(*wamp.Welcome); is {
			welcomed = true
		}
		if _, is := m.(*wamp.Abort); is {
			break
		}
	}
	vAssert("late-client-not-welcomed", !welcomed)
	vAssert("no-realm-survives-close", len(r.realms) == 0)
	vAssert("no-router-goroutine-left", vGoroutinesSinceMark() <= 0)
	vCover("attach-during-close-done")
}

// A client attaching (authentication path through the realm's worker) while
// its realm is being removed.
func vC06RemoveRealmAttachRace(budget int) {
	r := vNewRouter(&Config{RealmConfigs: []*RealmConfig{
		{URI: "realm1", AnonymousAuth: true, RequireLocalAuth: true},
		{URI: "realm2", AnonymousAuth: true}}})
	other := vAttach(r, "realm2", nil, 64)
	vAssert("attached", other != nil)
	cl, rp := transport.LinkedPeersQSize(8)
	vSetPreempt(budget)
	var aerr error
	done := make(chan struct{})
	go func() {
		defer close(done)
		go func() {
			cl.Send() <- &wamp.Hello{Realm: "realm1", Details: wamp.Dict{"roles": vAllRoles, "authmethods": wamp.List{"anonymous"}}}
		}()
		aerr = r.AttachClient(rp, nil)
	}()
	r.RemoveRealm("realm1")
	vSetPreempt(0)
	<-done
	vQuiesce()
	_ = aerr
	// the other realm is unaffected
	vBystanderServed(r, other)
	vCover("remove-realm-attach-race-done")
}

func Harness_C06_RemoveRealmAttachRace_2() { vC06RemoveRealmAttachRace(2) }
func Harness_C06_RemoveRealmAttachRace_3() { vC06RemoveRealmAttachRace(3) }

// Stall exploration: the attaching goroutine is descheduled after its k-th
// synchronisation operation and runs again only when everything else has come
// to rest (RemoveRealm has completed).
func Harness_C06_RemoveRealmAttachStall() {
	r := vNewRouter(&Config{RealmConfigs: []*RealmConfig{
		{URI: "realm1", AnonymousAuth: true, RequireLocalAuth: true},
		{URI: "realm2", AnonymousAuth: true}}})
	other := vAttach(r, "realm2", nil, 64)
	vAssert("attached", other != nil)
	cl, rp := transport.LinkedPeersQSize(8)
	k := vChoice("stall-after", 12)
	var aerr error
	done := make(chan struct{})
	go func() {
		defer close(done)
		go func() {
			cl.Send() <- &wamp.Hello{Realm: "realm1", Details: wamp.Dict{"roles": vAllRoles, "authmethods": wamp.List{"anonymous"}}}
		}()
		vStallAfter(k)
		aerr = r.AttachClient(rp, nil)
		vStallAfter(-1)
	}()
	vQuiesce()
	r.RemoveRealm("realm1")
	<-done
	vQuiesce()
	_ = aerr
	vBystanderServed(r, other)
	vCover("remove-realm-attach-stall-done")
}

// The timer goroutine of a router-timed call has seen its deadline and is
// descheduled before it hands its cancel action to the dealer; meanwhile the
// router is closed (or the realm removed). Close returns, nothing panics.
func Harness_C06_CloseWhileTimerFires() {
	r := vNewRouter(&Config{RealmConfigs: []*RealmConfig{{URI: "realm1", AnonymousAuth: true}, {URI: "realm2", AnonymousAuth: true}}})
	a := vAttach(r, "realm1", nil, 64)
	b := vAttach(r, "realm1", nil, 64)
	other := vAttach(r, "realm2", nil, 64)
	vAssert("attached", a != nil && b != nil && other != nil)
	b.send(&wamp.Register{Request: 1, Procedure: "b.proc"})
	b.drain()
	a.send(&wamp.Call{Request: 3, Procedure: "b.proc", Options: wamp.Dict{"timeout": int64(100)}})
	a.drain()
	b.drain()
	k := vChoice("stall-after", 3)
	vStallFunc("syncCall$1", k)
	vAdvance(150 * 1000000) // the call's deadline passes
	vQuiesce()
	removeOnly := vBool("remove-realm-only")
	t0 := vNow()
	closed := make(chan struct{})
	go func() {
		if removeOnly {
			r.RemoveRealm("realm1")
		} else {
			r.Close()
		}
		close(closed)
	}()
	vQuiesce()
	vStallRelease()
	vQuiesce()
	vAdvance(1000 * 1000000)
	vQuiesce()
	select {
	case <-closed:
	default:
		vAssert("close-returns-while-a-call-timer-fires", false)
		return
	}
	vAssert("close-returns-promptly", vNow()-t0 < 1500*1000000)
	vQuiesce()
	if removeOnly {
		vBystanderServed(r, other)
	}
	vCover("close-while-timer-fires-done")
}
