package router

import (
	"github.com/gammazero/nexus/v3/transport"
	"github.com/gammazero/nexus/v3/wamp"
)

// C06: Router.Close and RemoveRealm are safe at any moment.

func vGotShutdownOrClosed(c *vClient) bool {
	vQuiesce()
	for {
		select {
		case m, ok := <-c.peer.Recv():
			if !ok {
				return true // transport closed
			}
			if g, is := m.(*wamp.Goodbye); is && g.Reason == wamp.ErrSystemShutdown {
				return true
			}
		default:
			return false
		}
	}
}

func Harness_C06_Close() {
	vGoroutineMark()
	r := vNewRouter(&Config{RealmConfigs: []*RealmConfig{{URI: "realm1", AnonymousAuth: true}, {URI: "realm2", AnonymousAuth: true}}})
	a := vAttach(r, "realm1", nil, 64)
	b := vAttach(r, "realm1", nil, 64)
	c := vAttach(r, "realm2", nil, 64)
	vAssert("attached", a != nil && b != nil && c != nil)
	b.send(&wamp.Register{Request: 1, Procedure: "b.proc"})
	b.drain()
	situation := vChoice("situation", 4)
	switch situation {
	case 0: // idle sessions
	case 1: // subscriptions and a registration
		a.send(&wamp.Subscribe{Request: 2, Topic: "t"})
		a.drain()
	case 2: // a pending call with a router-side timeout
		a.send(&wamp.Call{Request: 3, Procedure: "b.proc", Options: wamp.Dict{"timeout": int64(500)}})
		a.drain()
		b.drain()
	case 3: // a pending call, no timeout
		a.send(&wamp.Call{Request: 3, Procedure: "b.proc"})
		a.drain()
		b.drain()
	}
	r.Close()
	vCover("close-returned")
	vAssert("client-a-told-shutdown", vGotShutdownOrClosed(a))
	vAssert("client-b-told-shutdown", vGotShutdownOrClosed(b))
	vAssert("client-c-told-shutdown", vGotShutdownOrClosed(c))
	// a timer of the call that was pending may still expire: never a panic later
	for vFireTimer() {
	}
	vQuiesce()
	// later attach attempts are refused, not a crash
	cl, rp := transport.LinkedPeersQSize(8)
	go func() { cl.Send() <- &wamp.Hello{Realm: "realm1", Details: wamp.Dict{"roles": vAllRoles}} }()
	err := r.AttachClient(rp, nil)
	vAssert("attach-after-close-refused", err != nil)
	vQuiesce()
	vAssert("no-router-goroutine-left", vGoroutinesSinceMark() <= 0)
	vCover("close-checked")
}

func Harness_C06_RemoveRealm() {
	r := vNewRouter(&Config{RealmConfigs: []*RealmConfig{{URI: "realm1", AnonymousAuth: true}, {URI: "realm2", AnonymousAuth: true}}})
	a := vAttach(r, "realm1", nil, 64)
	b := vAttach(r, "realm1", nil, 64)
	c := vAttach(r, "realm2", nil, 64)
	c2 := vAttach(r, "realm2", nil, 64)
	vAssert("attached", a != nil && b != nil && c != nil && c2 != nil)
	b.send(&wamp.Register{Request: 1, Procedure: "b.proc"})
	c2.send(&wamp.Subscribe{Request: 1, Topic: "t"})
	b.drain()
	c2.drain()
	if vBool("pending-call-with-timeout") {
		a.send(&wamp.Call{Request: 3, Procedure: "b.proc", Options: wamp.Dict{"timeout": int64(500)}})
		a.drain()
		b.drain()
	}
	vGoroutineMark()
	r.RemoveRealm("realm1")
	vCover("remove-returned")
	vAssert("client-a-told-shutdown", vGotShutdownOrClosed(a))
	vAssert("client-b-told-shutdown", vGotShutdownOrClosed(b))
	for vFireTimer() {
	}
	vQuiesce()
	// the other realm is unaffected
	c.send(&wamp.Publish{Request: 5, Topic: "t", Arguments: wamp.List{"x"}})
	_, n := vFindMsg[*wamp.Event](c2.drain())
	vAssert("other-realm-still-served", n == 1)
	// attach to the removed realm is refused
	cl, rp := transport.LinkedPeersQSize(8)
	go func() { cl.Send() <- &wamp.Hello{Realm: "realm1", Details: wamp.Dict{"roles": vAllRoles}} }()
	err := r.AttachClient(rp, nil)
	vAssert("attach-to-removed-realm-refused", err != nil)
	vCover("remove-checked")
}
