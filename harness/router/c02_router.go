package router

import "github.com/gammazero/nexus/v3/wamp"

// C02 through the whole router: caller c stays attached and keeps reading;
// callee e (any announced role set - the router does not tie REGISTER or CALL
// to announced roles) serves its call and then answers or ends in every way a
// session can end. The caller gets exactly one final reply, then silence.
func Harness_C02_RouterCallEndings() {
	r := vNewRouter(&Config{RealmConfigs: []*RealmConfig{{URI: "realm1", AnonymousAuth: true, EnableMetaKill: true}}})
	roleSets := []wamp.Dict{
		vAllRoles,
		{"publisher": wamp.Dict{}, "subscriber": wamp.Dict{}},
		{"callee": wamp.Dict{"features": wamp.Dict{"call_canceling": true}}},
		{"subscriber": wamp.Dict{}},
	}
	e := vAttach(r, "realm1", wamp.Dict{"roles": roleSets[vChoice("callee.roles", len(roleSets))]}, 16)
	callerSets := []wamp.Dict{vAllRoles, {"publisher": wamp.Dict{}}, {"caller": wamp.Dict{}}}
	c := vAttach(r, "realm1", wamp.Dict{"roles": callerSets[vChoice("caller.roles", len(callerSets))]}, 16)
	o := vAttach(r, "realm1", nil, 16)
	vAssert("attached", e != nil && c != nil && o != nil)
	if e == nil || c == nil || o == nil {
		return
	}
	e.send(&wamp.Register{Request: 1, Procedure: "p"})
	_, nreg := vFindMsg[*wamp.Registered](e.drain())
	vAssert("registered", nreg == 1)
	copts := wamp.Dict{}
	if vBool("call.has-router-timeout") {
		copts["timeout"] = int64(60000)
	}
	c.send(&wamp.Call{Request: 7, Procedure: "p", Options: copts, Arguments: wamp.List{"x"}})
	inv, ninv := vFindMsg[*wamp.Invocation](e.drain())
	vAssert("invoked-once", ninv == 1)
	if ninv != 1 {
		return
	}
	vAssert("nothing-for-the-caller-yet", len(c.drain()) == 0)
	ending := vChoice("ending", 7)
	switch ending {
	case 0:
		e.send(&wamp.Yield{Request: inv.Request, Options: wamp.Dict{}, Arguments: wamp.List{"r"}})
	case 1:
		e.send(&wamp.Error{Type: wamp.INVOCATION, Request: inv.Request, Details: wamp.Dict{}, Error: "app.failed"})
	case 2:
		e.send(&wamp.Goodbye{Reason: wamp.CloseRealm, Details: wamp.Dict{}})
	case 3:
		e.peer.Close()
	case 4:
		o.send(&wamp.Call{Request: 20, Procedure: wamp.MetaProcSessionKill, Arguments: wamp.List{e.id}})
	case 5:
		e.send(&wamp.Welcome{ID: 1, Details: wamp.Dict{}}) // protocol violation
	case 6:
		o.send(&wamp.Call{Request: 20, Procedure: wamp.MetaProcSessionKill, Arguments: wamp.List{e.id}, ArgumentsKw: wamp.Dict{"reason": string(wamp.CloseSystemShutdown)}})
	}
	got := c.drain()
	vAssert("exactly-one-message-for-the-caller", len(got) == 1)
	if len(got) == 1 {
		switch m := got[0].(type) {
		case *wamp.Result:
			vAssert("result-only-after-yield", ending == 0 && m.Request == 7 && len(m.Arguments) == 1 && m.Arguments[0] == any("r"))
			_, prog := m.Details["progress"]
			vAssert("final-result", !prog)
		case *wamp.Error:
			vAssert("error-of-the-call", m.Type == wamp.CALL && m.Request == 7 && ending != 0)
			if ending == 1 {
				vAssert("callee-error-forwarded", m.Error == "app.failed")
			} else {
				vCover("caller-told-callee-is-gone")
			}
		default:
			vAssert("reply-is-result-or-error", false)
		}
	}
	// afterwards: late answers, cancels and the timeout change nothing
	if ending >= 2 {
		if ending != 3 {
			e.drain()
		}
	} else {
		e.send(&wamp.Yield{Request: inv.Request, Options: wamp.Dict{}, Arguments: wamp.List{"late"}})
	}
	c.send(&wamp.Cancel{Request: 7, Options: wamp.Dict{"mode": "kill"}})
	vQuiesce()
	vAdvance(int64(120 * 1000 * 1000 * 1000))
	vAssert("silence-after-the-final-reply", len(c.drain()) == 0)
	// the procedure of an ended callee is gone
	if ending >= 2 {
		c.send(&wamp.Call{Request: 8, Procedure: "p"})
		er, nerr := vFindMsg[*wamp.Error](c.drain())
		vAssert("no-call-routed-to-ended-callee", nerr == 1 && er.Request == 8 && er.Error == wamp.ErrNoSuchProcedure)
	}
	r.Close()
	vCover("call-endings-done")
}
