package router

import (
	"time"

	"github.com/gammazero/nexus/v3/wamp"
)

// C20: event history retention and query.

type vPubRec struct {
	id  wamp.ID
	arg int64
}

func vHistEvents(y wamp.Message) (wamp.List, bool) {
	yl, ok := y.(*wamp.Yield)
	if !ok {
		return nil, false
	}
	return yl.Arguments, true
}

func vStoredEventOf(v any) (storedEvent, bool) {
	se, ok := v.(storedEvent)
	return se, ok
}

// retention under subscriber churn
func vC20Retention(nOps int, pattern bool) {
	limit := 1 + vChoice("limit", 2)
	cfgTopic, cfgMatch := wamp.URI("h.t"), wamp.MatchExact
	if pattern {
		cfgTopic, cfgMatch = "h.", wamp.MatchPrefix
	}
	b, err := newBroker(vNopLog{}, false, true, false, nil, []*TopicEventHistoryConfig{{Topic: cfgTopic, MatchPolicy: cfgMatch, Limit: limit}})
	vAssert("broker-created", err == nil)
	pub := vNewSess(81, nil, nil, 32)
	s1 := vNewSess(82, nil, nil, 32)
	s2 := vNewSess(83, nil, nil, 32)

	// id of the configured subscription, through the meta lookup
	lopts := wamp.Dict{}
	if pattern {
		lopts["match"] = cfgMatch
	}
	lk := b.subLookup(&wamp.Invocation{Request: 1, Arguments: wamp.List{cfgTopic, lopts}})
	ly, ok := lk.(*wamp.Yield)
	vAssert("lookup-yield", ok && len(ly.Arguments) == 1)
	subID, _ := wamp.AsID(ly.Arguments[0])
	vAssert("history-subscription-exists", subID != 0)

	var kept []vPubRec // reference: every retained publication, oldest first
	s1sub := false
	var otherSub wamp.ID
	otherMatch := wamp.MatchPrefix // a policy other than the configured one, valid for the same URI
	if pattern {
		otherMatch = wamp.MatchWildcard
	}
	sopts := wamp.Dict{}
	if pattern {
		sopts["match"] = cfgMatch
	}
	for k := 0; k < nOps; k++ {
		published := false
		switch vChoice("op", 8) {
		case 0, 1: // plain publication (twice as likely)
			published = true
			arg := vInt64("pub.arg")
			b.publish(pub.s, &wamp.Publish{Request: wamp.ID(100 + k), Topic: "h.t", Options: wamp.Dict{"acknowledge": true}, Arguments: wamp.List{arg}})
			vSyncBroker(b)
			for _, m := range pub.vDrain() {
				if p, ok := m.(*wamp.Published); ok {
					kept = append(kept, vPubRec{p.Publication, arg})
				}
			}
		case 2: // publication restricted to particular receivers: never retained
			published = true
			o := wamp.Dict{"acknowledge": true}
			if vBool("restricted.byExclude") {
				o["exclude"] = wamp.List{wamp.ID(83)}
			} else {
				o["eligible"] = wamp.List{wamp.ID(82)}
			}
			b.publish(pub.s, &wamp.Publish{Request: wamp.ID(100 + k), Topic: "h.t", Options: o, Arguments: wamp.List{int64(-1)}})
			vSyncBroker(b)
			pub.vDrain()
		case 3:
			b.subscribe(s1.s, &wamp.Subscribe{Request: wamp.ID(200 + k), Topic: cfgTopic, Options: sopts})
			vSyncBroker(b)
			s1sub = true
		case 4:
			if s1sub {
				b.unsubscribe(s1.s, &wamp.Unsubscribe{Request: wamp.ID(300 + k), Subscription: subID})
				s1sub = false
			} else {
				// a session that is not subscribed asks to unsubscribe
				b.unsubscribe(s2.s, &wamp.Unsubscribe{Request: wamp.ID(300 + k), Subscription: subID})
				vCover("foreign-unsubscribe")
			}
			vSyncBroker(b)
		case 5:
			b.removeSession(s1.s)
			vSyncBroker(b)
			s1sub = false
		case 6: // somebody subscribes to the very same URI under another match policy
			if otherSub == 0 {
				b.subscribe(s2.s, &wamp.Subscribe{Request: wamp.ID(400 + k), Topic: cfgTopic, Options: wamp.Dict{"match": otherMatch}})
				vSyncBroker(b)
				sd, n := vFindMsg[*wamp.Subscribed](s2.vDrain())
				vAssert("other-policy-subscription-is-a-different-one", n == 1 && sd.Subscription != subID)
				if n == 1 {
					otherSub = sd.Subscription
				}
			}
		case 7: // ... and goes away again
			if otherSub != 0 {
				b.unsubscribe(s2.s, &wamp.Unsubscribe{Request: wamp.ID(500 + k), Subscription: otherSub})
				vSyncBroker(b)
				otherSub = 0
				vCover("other-policy-subscription-removed")
			}
		}
		// live delivery next to retention: a publication reaches s1 exactly while it is subscribed
		nEv := 0
		for _, m := range s1.vDrain() {
			if e, ok := m.(*wamp.Event); ok {
				nEv++
				vAssert("event-carries-history-subscription-id", e.Subscription == subID)
			}
		}
		if published {
			vAssert("event-delivered-iff-currently-subscribed", (nEv == 1) == s1sub && nEv <= 1)
		} else {
			vAssert("no-event-without-publication", nEv == 0)
		}
		s2.vDrain()
	}

	res := b.subEventHistory(&wamp.Invocation{Request: 2, Arguments: wamp.List{subID}})
	evs, ok := vHistEvents(res)
	vAssert("get-events-yields", ok)
	want := kept
	if len(want) > limit {
		want = want[len(want)-limit:]
	}
	vAssert("history-length", len(evs) == len(want))
	if len(evs) == len(want) {
		for i := range want {
			se, ok := vStoredEventOf(evs[i])
			vAssert("history-entry-type", ok)
			if ok {
				vAssert("history-entry-publication-and-args", se.Publication == want[i].id && len(se.Arguments) == 1 && se.Arguments[0] == any(want[i].arg))
				if pattern {
					vAssert("history-entry-topic", se.Details["topic"] == any(wamp.URI("h.t")))
				}
			}
		}
	}
	if len(want) > 0 {
		vCover("history-nonempty")
	}
	if len(kept) > limit {
		vCover("history-evicted-oldest")
	}
}

func Harness_C20_Retention_3()        { vC20Retention(3, false) }
func Harness_C20_Retention_4()        { vC20Retention(4, false) }
func Harness_C20_RetentionPattern_3() { vC20Retention(3, true) }

// numeric carrier types a local / JSON / msgpack / CBOR client delivers
func vNumAs(name string, v int64) any {
	switch vChoice(name+".numtype", 4) {
	case 0:
		return int(v)
	case 1:
		return v
	case 2:
		return uint64(v)
	}
	return float64(v)
}

func vIDAs4(name string, id wamp.ID) any {
	switch vChoice(name+".numtype", 4) {
	case 0:
		return id
	case 1:
		return int64(id)
	case 2:
		return uint64(id)
	}
	return float64(id)
}

// query filters on a store of 3 publications
func Harness_C20_Query() {
	b, err := newBroker(vNopLog{}, false, true, false, nil, []*TopicEventHistoryConfig{{Topic: "h.t", MatchPolicy: wamp.MatchExact, Limit: 3}})
	vAssert("broker-created", err == nil)
	pub := vNewSess(81, nil, nil, 32)
	lk := b.subLookup(&wamp.Invocation{Request: 1, Arguments: wamp.List{wamp.URI("h.t")}})
	subID, _ := wamp.AsID(lk.(*wamp.Yield).Arguments[0])
	var ids []wamp.ID
	for k := 0; k < 3; k++ {
		b.publish(pub.s, &wamp.Publish{Request: wamp.ID(100 + k), Topic: "h.t", Options: wamp.Dict{"acknowledge": true}, Arguments: wamp.List{int64(k)}})
		vSyncBroker(b)
		for _, m := range pub.vDrain() {
			if p, ok := m.(*wamp.Published); ok {
				ids = append(ids, p.Publication)
			}
		}
	}
	vAssert("three-published", len(ids) == 3)
	kw := wamp.Dict{}
	lo, hi := 0, 3 // reference window [lo,hi) over entries 0,1,2 (oldest first)
	limit := 0
	reverse := false
	switch vChoice("filter", 7) {
	case 0:
	case 1:
		limit = 1 + vChoice("limit", 2)
		kw["limit"] = vNumAs("limit", int64(limit))
	case 2:
		limit = 1 + vChoice("limit", 2)
		kw["limit"] = vNumAs("limit", int64(limit))
		reverse = true
		kw["reverse"] = true
	case 3:
		i := vChoice("from", 3)
		kw["from_publication"] = vIDAs4("from", ids[i])
		lo = i
	case 4:
		i := vChoice("after", 3)
		kw["after_publication"] = vIDAs4("after", ids[i])
		lo = i + 1
	case 5:
		i := vChoice("before", 3)
		kw["before_publication"] = vIDAs4("before", ids[i])
		hi = i
	case 6:
		i := vChoice("until", 3)
		kw["until_publication"] = vIDAs4("until", ids[i])
		hi = i + 1
	}
	res := b.subEventHistory(&wamp.Invocation{Request: 2, Arguments: wamp.List{subID}, ArgumentsKw: kw})
	evs, ok := vHistEvents(res)
	vAssert("query-yields-for-every-numeric-encoding", ok)
	if !ok {
		return
	}
	var want []int
	for i := lo; i < hi; i++ {
		want = append(want, i)
	}
	if limit > 0 && len(want) > limit {
		want = want[len(want)-limit:] // the most recent
	}
	if reverse {
		for i, j := 0, len(want)-1; i < j; i, j = i+1, j-1 {
			want[i], want[j] = want[j], want[i]
		}
	}
	vAssert("query-result-length", len(evs) == len(want))
	if len(evs) == len(want) {
		for i, w := range want {
			se, ok := vStoredEventOf(evs[i])
			vAssert("query-entry", ok && se.Publication == ids[w])
		}
	}
	vCover("query-done")
}

// combinations of filters on a pattern history whose entries have different topics
func Harness_C20_QueryCombined() {
	b, err := newBroker(vNopLog{}, false, true, false, nil, []*TopicEventHistoryConfig{{Topic: "h.", MatchPolicy: wamp.MatchPrefix, Limit: 3}})
	vAssert("broker-created", err == nil)
	pub := vNewSess(81, nil, nil, 32)
	lk := b.subLookup(&wamp.Invocation{Request: 1, Arguments: wamp.List{wamp.URI("h."), wamp.Dict{"match": wamp.MatchPrefix}}})
	ly, isY := lk.(*wamp.Yield)
	vAssert("lookup", isY && len(ly.Arguments) == 1)
	if !isY || len(ly.Arguments) != 1 {
		return
	}
	subID, _ := wamp.AsID(ly.Arguments[0])
	vAssert("history-subscription-exists", subID != 0)
	topics := []wamp.URI{"h.a", "h.b"}
	var ids []wamp.ID
	var tix [3]int
	for k := 0; k < 3; k++ {
		tix[k] = vChoice("topic", 2)
		b.publish(pub.s, &wamp.Publish{Request: wamp.ID(100 + k), Topic: topics[tix[k]], Options: wamp.Dict{"acknowledge": true}, Arguments: wamp.List{int64(k)}})
		vSyncBroker(b)
		for _, m := range pub.vDrain() {
			if p, ok := m.(*wamp.Published); ok {
				ids = append(ids, p.Publication)
			}
		}
	}
	vAssert("three-published", len(ids) == 3)
	kw := wamp.Dict{}
	lo, hi := 0, 3
	switch vChoice("bound", 5) {
	case 1:
		i := vChoice("from", 3)
		kw["from_publication"] = ids[i]
		lo = i
	case 2:
		i := vChoice("after", 3)
		kw["after_publication"] = ids[i]
		lo = i + 1
	case 3:
		i := vChoice("before", 3)
		kw["before_publication"] = ids[i]
		hi = i
	case 4:
		i := vChoice("until", 3)
		kw["until_publication"] = ids[i]
		hi = i + 1
	}
	topicFilter := vChoice("topic.filter", 3) // none, h.a, h.b
	if topicFilter > 0 {
		// a remote client's topic arrives as a string; an in-process client may
		// as well pass the URI typed as it uses it everywhere else
		if vBool("topic.filter.typed-as-URI") {
			kw["topic"] = topics[topicFilter-1]
		} else {
			kw["topic"] = string(topics[topicFilter-1])
		}
	}
	limit := vChoice("limit", 3) // none, 1, 2
	if limit > 0 {
		kw["limit"] = limit
	}
	reverse := vBool("reverse")
	if reverse {
		kw["reverse"] = true
	}
	res := b.subEventHistory(&wamp.Invocation{Request: 2, Arguments: wamp.List{subID}, ArgumentsKw: kw})
	evs, ok := vHistEvents(res)
	vAssert("query-yields", ok)
	if !ok {
		return
	}
	var want []int
	for i := lo; i < hi; i++ {
		if topicFilter == 0 || tix[i] == topicFilter-1 {
			want = append(want, i)
		}
	}
	if limit > 0 && len(want) > limit {
		want = want[len(want)-limit:]
	}
	if reverse {
		for i, j := 0, len(want)-1; i < j; i, j = i+1, j-1 {
			want[i], want[j] = want[j], want[i]
		}
	}
	vAssert("combined-query-result-length", len(evs) == len(want))
	if len(evs) == len(want) {
		for i, w := range want {
			se, ok := vStoredEventOf(evs[i])
			vAssert("combined-query-entry", ok && se.Publication == ids[w])
		}
	}
	if topicFilter > 0 && len(kw) >= 2 {
		vCover("topic-with-other-filter")
	}
	vCover("combined-query-done")
}

// Retention next to live delivery: what is retained for a publication is
// what was published - not what was built for, or later modified by, one of
// the live subscribers (also C12: a reader of the history never learns the
// publisher's identity through an entry built for somebody who was allowed to)
func Harness_C20_RetainedNotTheDeliveredEvent() {
	b, err := newBroker(vNopLog{}, false, true, false, nil, []*TopicEventHistoryConfig{{Topic: "h.t", MatchPolicy: wamp.MatchExact, Limit: 3}})
	vAssert("broker-created", err == nil)
	pub := vNewSess(81, wamp.Dict{"authid": "paula", "authrole": "ops"}, nil, 32)
	nSubs := vChoice("live-subscribers", 3)
	var subs []*vSess
	for i := 0; i < nSubs; i++ {
		ident := vBool("subscriber.publisher_identification")
		local := vBool("subscriber.in-process")
		s := vNewSessKind(wamp.ID(91+i), nil, vFeat("subscriber", map[string]bool{"publisher_identification": ident}), 16, local)
		b.subscribe(s.s, &wamp.Subscribe{Request: 1, Topic: "h.t"})
		vSyncBroker(b)
		s.vDrain()
		subs = append(subs, s)
	}
	opts := wamp.Dict{}
	if vBool("disclose_me") {
		opts["disclose_me"] = true
	}
	arg := vInt64("arg")
	b.publish(pub.s, &wamp.Publish{Request: 5, Topic: "h.t", Options: opts, Arguments: wamp.List{arg}, ArgumentsKw: wamp.Dict{"k": arg}})
	vSyncBroker(b)
	// in-process subscribers own what they received and may modify it
	for _, s := range subs {
		for _, m := range s.vDrain() {
			if e, ok := m.(*wamp.Event); ok && s.s.IsLocal() {
				if e.Details != nil {
					e.Details["scribble"] = true
				}
				if len(e.Arguments) > 0 {
					e.Arguments[0] = "scribble"
				}
				if e.ArgumentsKw != nil {
					e.ArgumentsKw["k"] = "scribble"
				}
			}
		}
	}
	lk := b.subLookup(&wamp.Invocation{Request: 1, Arguments: wamp.List{wamp.URI("h.t")}})
	subID, _ := wamp.AsID(lk.(*wamp.Yield).Arguments[0])
	evs, ok := vHistEvents(b.subEventHistory(&wamp.Invocation{Request: 2, Arguments: wamp.List{subID}}))
	vAssert("one-entry-retained", ok && len(evs) == 1)
	if ok && len(evs) == 1 {
		se, isSE := vStoredEventOf(evs[0])
		vAssert("history-entry-type", isSE)
		if isSE {
			vAssert("retained-arguments-are-the-published-ones", len(se.Arguments) == 1 && se.Arguments[0] == any(arg) && len(se.ArgumentsKw) == 1 && se.ArgumentsKw["k"] == any(arg))
			_, scribbled := se.Details["scribble"]
			vAssert("retained-details-not-a-subscribers-copy", !scribbled)
			_, p1 := se.Details["publisher"]
			_, p2 := se.Details["publisher_authid"]
			_, p3 := se.Details["publisher_authrole"]
			vAssert("history-does-not-disclose-the-publisher", !p1 && !p2 && !p3)
		}
	}
	if nSubs > 0 {
		vCover("retained-next-to-live-delivery")
	}
}

// time bounds placed exactly on (and between) the instants entries were
// retained at, alone and combined with a publication bound
//
//verif:virtual-clock
func Harness_C20_QueryTimeBounds() {
	b, err := newBroker(vNopLog{}, false, true, false, nil, []*TopicEventHistoryConfig{{Topic: "h.t", MatchPolicy: wamp.MatchExact, Limit: 3}})
	vAssert("broker-created", err == nil)
	pub := vNewSess(81, nil, nil, 32)
	lk := b.subLookup(&wamp.Invocation{Request: 1, Arguments: wamp.List{wamp.URI("h.t")}})
	subID, _ := wamp.AsID(lk.(*wamp.Yield).Arguments[0])
	var ids []wamp.ID
	var ts []time.Time
	for k := 0; k < 3; k++ {
		vAdvance(int64(time.Second))
		b.publish(pub.s, &wamp.Publish{Request: wamp.ID(100 + k), Topic: "h.t", Options: wamp.Dict{"acknowledge": true}, Arguments: wamp.List{int64(k)}})
		vSyncBroker(b)
		ts = append(ts, time.Now()) // the clock stands still while the broker works
		for _, m := range pub.vDrain() {
			if p, ok := m.(*wamp.Published); ok {
				ids = append(ids, p.Publication)
			}
		}
	}
	vAssert("three-published", len(ids) == 3)
	if len(ids) != 3 {
		return
	}
	kw := wamp.Dict{}
	tkind := vChoice("time-bound", 5) // none, from, after, before, until
	ti := vChoice("time-bound.entry", 3)
	between := vBool("time-bound.between-two-entries")
	T := ts[ti]
	if between {
		T = T.Add(500 * time.Millisecond)
	}
	if tkind > 0 {
		kw[[]string{"", "from_time", "after_time", "before_time", "until_time"}[tkind]] = T.Format(time.RFC3339Nano)
	}
	pkind := vChoice("publication-bound", 5) // none, from, after, before, until
	pj := vChoice("publication-bound.entry", 3)
	if pkind > 0 {
		kw[[]string{"", "from_publication", "after_publication", "before_publication", "until_publication"}[pkind]] = ids[pj]
	}
	res := b.subEventHistory(&wamp.Invocation{Request: 2, Arguments: wamp.List{subID}, ArgumentsKw: kw})
	evs, ok := vHistEvents(res)
	vAssert("query-yields", ok)
	if !ok {
		return
	}
	var want []int
	for k := 0; k < 3; k++ {
		in := true
		switch tkind {
		case 1:
			in = !ts[k].Before(T)
		case 2:
			in = ts[k].After(T)
		case 3:
			in = ts[k].Before(T)
		case 4:
			in = !ts[k].After(T)
		}
		switch pkind {
		case 1:
			in = in && k >= pj
		case 2:
			in = in && k > pj
		case 3:
			in = in && k < pj
		case 4:
			in = in && k <= pj
		}
		if in {
			want = append(want, k)
		}
	}
	vAssert("time-bounded-query-result-length", len(evs) == len(want))
	if len(evs) == len(want) {
		for i, w := range want {
			se, ok := vStoredEventOf(evs[i])
			vAssert("time-bounded-query-entry", ok && se.Publication == ids[w])
		}
	}
	if tkind > 0 && pkind > 0 {
		vCover("time-and-publication-bound")
	}
	vCover("time-bound-query-done")
}
