package router

import (
	"github.com/gammazero/nexus/v3/transport"
	"github.com/gammazero/nexus/v3/wamp"
)

// C01 through the whole router: the attributes the black/white lists are
// evaluated on are the ones of the session record - what the router assigned
// (authid, authrole) and, for any other attribute, what the HELLO announced.
// A HELLO that carries identity keys of its own must not change who receives.
func Harness_C01_FilterOnSessionRecord() {
	r := vNewRouter(&Config{RealmConfigs: []*RealmConfig{{URI: "realm1", AnonymousAuth: true}}})
	local := vBool("subscriber.local")
	smuggled := []string{"", "admin", "trusted", "anonymous"}[vChoice("hello.authrole", 4)]
	dept := []string{"", "sales", "ops"}[vChoice("hello.department", 3)]
	hd := wamp.Dict{"roles": vAllRoles, "authid": "u1"}
	if smuggled != "" {
		hd["authrole"] = smuggled
	}
	if dept != "" {
		hd["department"] = dept
	}
	c, rp := transport.LinkedPeersQSize(16)
	var peer wamp.Peer = rp
	if !local {
		peer = &vRemoteWrap{rp}
	}
	go func() { c.Send() <- &wamp.Hello{Realm: "realm1", Details: hd} }()
	err := r.AttachClient(peer, nil)
	vAssert("subscriber-attached", err == nil)
	if err != nil {
		return
	}
	w, ok := (<-c.Recv()).(*wamp.Welcome)
	vAssert("welcome", ok)
	if !ok {
		return
	}
	role, _ := wamp.AsString(w.Details["authrole"])
	vAssert("router-assigned-role", role == "trusted" || role == "anonymous")
	sub := &vClient{peer: c, id: w.ID}
	sub.send(&wamp.Subscribe{Request: 1, Topic: "t.x"})
	rep := sub.drain()
	vAssert("subscribed", len(rep) == 1)

	pub := vAttach(r, "realm1", nil, 16)
	vAssert("publisher-attached", pub != nil)
	if pub == nil {
		return
	}
	val := []string{"admin", "trusted", "anonymous", "sales", "ops"}[vChoice("list.value", 5)]
	attr := []string{"authrole", "department"}[vChoice("list.attr", 2)]
	eligible := vBool("list.eligible")
	key := "exclude_" + attr
	if eligible {
		key = "eligible_" + attr
	}
	pub.send(&wamp.Publish{Request: 2, Topic: "t.x", Options: wamp.Dict{key: wamp.List{val}}})
	have := role
	if attr == "department" {
		have = dept
	}
	want := have != val
	if eligible {
		want = have == val
	}
	n := 0
	for _, m := range sub.drain() {
		if _, ok := m.(*wamp.Event); ok {
			n++
		}
	}
	if want {
		vAssert("delivered-to-the-eligible-session", n == 1)
		vCover("delivered")
	} else {
		vAssert("withheld-from-the-excluded-session", n == 0)
		vCover("withheld")
	}
	r.Close()
}

// a peer that does not claim to be in-process
type vRemoteWrap struct{ p wamp.Peer }

func (v *vRemoteWrap) IsLocal() bool               { return false }
func (v *vRemoteWrap) Recv() <-chan wamp.Message   { return v.p.Recv() }
func (v *vRemoteWrap) Send() chan<- wamp.Message   { return v.p.Send() }
func (v *vRemoteWrap) Close()                      { v.p.Close() }
