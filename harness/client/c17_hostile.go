package client

import (
	"context"
	"time"

	"github.com/gammazero/nexus/v3/wamp"
)

// C17: whatever the router sends, the client neither panics nor stops
// processing, and Close always returns.

const vAnyKinds = 10

func vAny(name string) any {
	switch vChoice(name+".type", vAnyKinds) {
	case 0:
		return nil
	case 1:
		return vBool(name)
	case 2:
		return vInt64(name)
	case 3:
		return vUint64(name)
	case 4:
		return vString(name, 2)
	case 5:
		return vBytes(name, 1)
	case 6:
		return wamp.List{vInt64(name)}
	case 7:
		return wamp.Dict{"k": vInt64(name)}
	case 8:
		return map[string]any{"k": vBool(name)}
	}
	return "json"
}

// payload-passthru details as another (hostile) client can make them
func vPPTDetails() (wamp.Dict, wamp.List) {
	d := wamp.Dict{}
	d["ppt_scheme"] = []string{"mqtt", "wamp", "x_custom", "bogus"}[vChoice("ppt_scheme", 4)]
	switch vChoice("ppt_serializer", 4) {
	case 0:
	case 1:
		d["ppt_serializer"] = "native"
	case 2:
		d["ppt_serializer"] = []string{"json", "msgpack", "cbor", "bogus"}[vChoice("ppt_serializer.name", 4)]
	case 3:
		d["ppt_serializer"] = vAny("ppt_serializer")
	}
	var args wamp.List
	switch vChoice("args", 8) {
	case 5: // the encodings of null
		args = wamp.List{[]byte("null")}
	case 6:
		args = wamp.List{[]byte{0xf6}}
	case 7:
		args = wamp.List{[]byte{0xc0}}
	case 0:
	case 1:
		args = wamp.List{[]byte{1, 2, 3}}
	case 2:
		args = wamp.List{"text"}
	case 3:
		args = wamp.List{map[string]any{"args": []any{1}}}
	case 4:
		args = wamp.List{&wamp.PassthruPayload{Arguments: wamp.List{1}}}
	}
	return d, args
}

func Harness_C17_HostileMessages() {
	cl, rt := vNewClient(2 * time.Second)
	events := 0
	err := cl.Subscribe("t", func(e *wamp.Event) { events++ }, nil)
	vAssert("subscribed", err == nil)
	subID, _ := cl.SubscriptionID("t")
	invs := 0
	err = cl.Register("p", func(ctx context.Context, inv *wamp.Invocation) InvokeResult {
		invs++
		return InvokeResult{Args: wamp.List{"ok"}}
	}, nil)
	vAssert("registered", err == nil)
	regID, _ := cl.RegistrationID("p")

	switch vChoice("hostile", 11) {
	case 0: // EVENT with payload-passthru details
		d, args := vPPTDetails()
		rt.send(&wamp.Event{Subscription: subID, Publication: 1, Details: d, Arguments: args})
	case 1: // INVOCATION with payload-passthru details
		d, args := vPPTDetails()
		rt.send(&wamp.Invocation{Request: 1, Registration: regID, Details: d, Arguments: args})
	case 2: // INVOCATION with arbitrary detail values
		d := wamp.Dict{}
		d[[]string{"timeout", "receive_progress", "progress", "procedure"}[vChoice("inv.key", 4)]] = vAny("inv.detail")
		rt.send(&wamp.Invocation{Request: wamp.ID(vUint64("inv.request")), Registration: regID, Details: d})
	case 3: // unknown ids
		rt.send(&wamp.Event{Subscription: wamp.ID(vUint64("ev.sub")), Publication: 1, Details: wamp.Dict{}})
		rt.send(&wamp.Invocation{Request: 5, Registration: wamp.ID(vUint64("inv.reg")), Details: wamp.Dict{}})
		rt.send(&wamp.Interrupt{Request: wamp.ID(vUint64("intr.req")), Options: wamp.Dict{"reason": vAny("reason")}})
	case 4: // replies nobody waits for
		rt.send(&wamp.Result{Request: wamp.ID(vUint64("res.req")), Details: wamp.Dict{"progress": vAny("progress")}})
		rt.send(&wamp.Error{Type: wamp.CALL, Request: wamp.ID(vUint64("err.req")), Error: "x", Details: wamp.Dict{}})
		rt.send(&wamp.Subscribed{Request: 999, Subscription: 5})
		rt.send(&wamp.Published{Request: 999})
	case 5: // message types a client never expects
		rt.send(&wamp.Hello{Realm: "x"})
		rt.send(&wamp.Welcome{ID: 1})
		rt.send(&wamp.Publish{Request: 1, Topic: "t"})
		rt.send(&wamp.Call{Request: 1, Procedure: "p"})
		rt.send(&wamp.Yield{Request: 1})
	case 6: // nil details / nil dicts
		rt.send(&wamp.Event{Subscription: subID, Publication: 1})
		rt.send(&wamp.Invocation{Request: 2, Registration: regID})
		rt.send(&wamp.Interrupt{Request: 2})
	case 7: // RESULT with payload-passthru details for a pending call
		d, args := vPPTDetails()
		rt.holdCall = true
		done := make(chan struct{})
		go func() {
			defer close(done)
			ctx, cancel := context.WithTimeout(context.Background(), time.Second)
			defer cancel()
			cl.Call(ctx, "q", nil, nil, nil, nil)
		}()
		vQuiesce()
		var req wamp.ID
		for _, m := range rt.got {
			if c, ok := m.(*wamp.Call); ok {
				req = c.Request
			}
		}
		rt.send(&wamp.Result{Request: req, Details: d, Arguments: args})
		<-done
		if !cl.Connected() {
			// the client aborted the session over a protocol violation: allowed
			vCover("client-aborted-session")
			return
		}
	case 10: // a progressive RESULT for a call that did not ask for progress
		rt.holdCall = true
		done := make(chan struct{})
		go func() {
			defer close(done)
			ctx, cancel := context.WithTimeout(context.Background(), time.Second)
			defer cancel()
			cl.Call(ctx, "q", nil, nil, nil, nil)
		}()
		vQuiesce()
		var req wamp.ID
		for _, m := range rt.got {
			if c, ok := m.(*wamp.Call); ok {
				req = c.Request
			}
		}
		rt.send(&wamp.Result{Request: req, Details: wamp.Dict{"progress": true}, Arguments: wamp.List{1}})
		rt.send(&wamp.Result{Request: req, Details: wamp.Dict{}, Arguments: wamp.List{2}})
		vQuiesce()
		vAdvance(int64(3 * time.Second)) // the call's own deadline and the response timeout
		vQuiesce()
		select {
		case <-done:
		default:
			vAssert("call-returns-despite-unrequested-progress", false)
			return
		}
	case 8: // duplicate / old invocation ids
		rt.send(&wamp.Invocation{Request: 9, Registration: regID, Details: wamp.Dict{}})
		rt.send(&wamp.Invocation{Request: 9, Registration: regID, Details: wamp.Dict{}})
		rt.send(&wamp.Invocation{Request: 3, Registration: regID, Details: wamp.Dict{}})
	case 9: // interrupt racing the invocation
		rt.send(&wamp.Invocation{Request: 4, Registration: regID, Details: wamp.Dict{"timeout": vAny("timeout")}})
		rt.send(&wamp.Interrupt{Request: 4, Options: wamp.Dict{}})
	}
	vQuiesce()
	// the client still processes messages: a well-formed event reaches the handler
	before := events
	rt.send(&wamp.Event{Subscription: subID, Publication: 2, Details: wamp.Dict{}, Arguments: wamp.List{"fine"}})
	vQuiesce()
	vAssert("client-keeps-processing", events == before+1)
	// and Close returns, Done is signalled
	cerr := cl.Close()
	vAssert("close-returns", cerr == nil)
	select {
	case <-cl.Done():
	default:
		vAssert("done-signalled-after-close", false)
	}
	vCover("hostile-checked")
}

// the router stops reading while an invocation handler's answer is waiting to
// be sent; then the session ends: Close returns, nothing is left running
func Harness_C17_RouterStopsReading() {
	cl, rt := vNewClient(300 * time.Millisecond)
	handlerKind := vChoice("handler", 3)
	err := cl.Register("p", func(ctx context.Context, inv *wamp.Invocation) InvokeResult {
		switch handlerKind {
		case 1:
			return InvokeResult{Err: "app.error"}
		case 2:
			<-ctx.Done()
			return InvokeResult{Err: wamp.ErrCanceled}
		}
		return InvokeResult{Args: wamp.List{"ok"}}
	}, nil)
	vAssert("registered", err == nil)
	regID, _ := cl.RegistrationID("p")
	vGoroutineMark()
	// the router stops reading
	close(rt.stop)
	<-rt.stopped
	switch vChoice("invocation", 3) {
	case 0:
		rt.send(&wamp.Invocation{Request: 1, Registration: regID, Details: wamp.Dict{}})
	case 1: // answered by the receive loop itself: no such registration
		rt.send(&wamp.Invocation{Request: 1, Registration: regID + 1000, Details: wamp.Dict{}})
	case 2: // answered by the receive loop itself: invalid passthru scheme
		rt.send(&wamp.Invocation{Request: 1, Registration: regID, Details: wamp.Dict{"ppt_scheme": "bogus"}})
	}
	vQuiesce()
	switch vChoice("ending", 4) {
	case 0: // the transport is lost
		rt.peer.Close()
	case 1: // the router says GOODBYE and never reads again
		rt.send(&wamp.Goodbye{Reason: wamp.CloseSystemShutdown, Details: wamp.Dict{}})
	case 2: // the router aborts
		rt.send(&wamp.Abort{Reason: wamp.ErrSystemShutdown, Details: wamp.Dict{}})
	case 3: // nothing: only the application closes the client
	}
	vQuiesce()
	done := make(chan struct{})
	go func() {
		defer close(done)
		cl.Close()
	}()
	// Close may wait for its own bounded timeouts (virtual clock)
	vQuiesce()
	vAdvance(int64(2 * time.Second))
	vQuiesce()
	select {
	case <-done:
	default:
		vAssert("close-returns-when-router-does-not-read", false)
		return
	}
	select {
	case <-cl.Done():
	default:
		vAssert("done-signalled-after-close", false)
	}
	vAssert("no-goroutine-or-handler-left", vGoroutinesSinceMark() <= 0)
	vCover("router-stopped-reading-checked")
}

// Stall exploration on the client: an API call whose goroutine is descheduled
// after its k-th synchronisation operation while the router goes away; when it
// continues, the call returns (with an error where appropriate) instead of
// waiting for ever.
func Harness_C17_APICallDuringDisconnect() {
	cl, rt := vNewClient(300 * time.Millisecond)
	api := vChoice("api", 5)
	k := vChoice("stall-after", 6)
	ending := vChoice("ending", 3)
	done := make(chan struct{})
	go func() {
		defer close(done)
		vStallAfter(k)
		switch api {
		case 0:
			_ = cl.Subscribe("t", func(*wamp.Event) {}, nil)
		case 1:
			_ = cl.Register("p", func(context.Context, *wamp.Invocation) InvokeResult { return InvokeResult{} }, nil)
		case 2:
			_ = cl.Publish("t", wamp.Dict{"acknowledge": true}, nil, nil)
		case 3:
			ctx, cancel := context.WithTimeout(context.Background(), time.Second)
			_, _ = cl.Call(ctx, "q", nil, nil, nil, nil)
			cancel()
		case 4:
			_ = cl.Publish("t", nil, nil, nil) // not acknowledged
		}
		vStallAfter(-1)
	}()
	vQuiesce()
	// the router goes away
	switch ending {
	case 0:
		close(rt.stop)
		<-rt.stopped
		rt.peer.Close() // transport lost, nobody reads any more
	case 1:
		rt.send(&wamp.Goodbye{Reason: wamp.CloseSystemShutdown, Details: wamp.Dict{}})
		close(rt.stop)
		<-rt.stopped
	case 2:
		rt.send(&wamp.Abort{Reason: wamp.ErrSystemShutdown, Details: wamp.Dict{}})
		close(rt.stop)
		<-rt.stopped
	}
	vQuiesce()
	vStallRelease()
	vQuiesce()
	// the API call must come back within the client's own timeouts
	vAdvance(int64(3 * time.Second))
	vQuiesce()
	select {
	case <-done:
	default:
		vAssert("api-call-returns-after-the-router-is-gone", false)
		return
	}
	closed := make(chan struct{})
	go func() { cl.Close(); close(closed) }()
	vQuiesce()
	vAdvance(int64(2 * time.Second))
	vQuiesce()
	select {
	case <-closed:
	default:
		vAssert("close-returns", false)
	}
	vCover("api-during-disconnect-done")
}

// the router goes on reading but does not answer (a foreign router, a GOODBYE
// reply dropped at a full queue, a peer that vanished without a reset): Close
// and every pending request return after their bounded waits
func Harness_C17_RouterStopsAnswering() {
	cl, rt := vNewClient(300 * time.Millisecond)
	vGoroutineMark()
	rt.auto = false
	rt.swallowGoodbye = true
	pending := vChoice("pending-request", 3)
	pdone := make(chan struct{})
	var perr error
	switch pending {
	case 1:
		go func() { defer close(pdone); perr = cl.Subscribe("t", func(*wamp.Event) {}, nil) }()
	case 2:
		go func() {
			defer close(pdone)
			_, perr = cl.Call(context.Background(), "p", nil, nil, nil, nil)
		}()
	default:
		close(pdone)
	}
	vQuiesce()
	closeFirst := vBool("close-while-the-request-is-pending")
	if !closeFirst {
		vAdvance(int64(400 * time.Millisecond))
		vQuiesce()
		if pending == 1 {
			select {
			case <-pdone:
				vAssert("unanswered-request-returns-an-error", perr != nil)
			default:
				vAssert("unanswered-request-returns-after-the-response-timeout", false)
				return
			}
		}
	}
	done := make(chan struct{})
	go func() {
		defer close(done)
		cl.Close()
	}()
	vQuiesce()
	vAdvance(int64(2 * time.Second))
	vQuiesce()
	select {
	case <-done:
	default:
		vAssert("close-returns-when-the-router-does-not-answer-goodbye", false)
		return
	}
	select {
	case <-pdone:
		if pending != 0 {
			vAssert("pending-request-ended-with-an-error", perr != nil)
		}
	default:
		vAssert("pending-request-returns-when-the-client-is-closed", false)
		return
	}
	select {
	case <-cl.Done():
	default:
		vAssert("done-signalled-after-close", false)
	}
	rt.peer.Close()
	vAssert("no-goroutine-or-handler-left", vGoroutinesSinceMark() <= 0)
	vCover("router-stopped-answering-checked")
}
