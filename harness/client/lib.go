package client

import (
	"time"

	"github.com/gammazero/nexus/v3/transport"
	"github.com/gammazero/nexus/v3/wamp"
)

type vNopLog struct{}

func (vNopLog) Print(v ...any)                 {}
func (vNopLog) Println(v ...any)               {}
func (vNopLog) Printf(format string, v ...any) {}

// vRouter plays the router on the other end of the client's peer.
type vRouter struct {
	peer           wamp.Peer
	got            []wamp.Message // everything the client sent
	auto           bool           // answer requests automatically
	nextID         wamp.ID
	stop           chan struct{}
	stopped        chan struct{}
	holdCall       bool // do not answer CALLs automatically
	swallowGoodbye bool // read the client's GOODBYE, never answer it
}

var vRouterRoles = wamp.Dict{"roles": wamp.Dict{
	"broker": wamp.Dict{"features": wamp.Dict{"payload_passthru_mode": true}},
	"dealer": wamp.Dict{"features": wamp.Dict{"payload_passthru_mode": true, "call_canceling": true, "progressive_call_results": true, "progressive_call_invocations": true}},
}}

func (v *vRouter) reply(m wamp.Message) wamp.Message {
	switch mm := m.(type) {
	case *wamp.Subscribe:
		v.nextID++
		return &wamp.Subscribed{Request: mm.Request, Subscription: v.nextID}
	case *wamp.Unsubscribe:
		return &wamp.Unsubscribed{Request: mm.Request}
	case *wamp.Register:
		v.nextID++
		return &wamp.Registered{Request: mm.Request, Registration: v.nextID}
	case *wamp.Unregister:
		return &wamp.Unregistered{Request: mm.Request}
	case *wamp.Publish:
		if ack, _ := mm.Options["acknowledge"].(bool); ack {
			v.nextID++
			return &wamp.Published{Request: mm.Request, Publication: v.nextID}
		}
	case *wamp.Call:
		if !v.holdCall {
			return &wamp.Result{Request: mm.Request, Details: wamp.Dict{}, Arguments: mm.Arguments}
		}
	case *wamp.Goodbye:
		if v.swallowGoodbye {
			return nil
		}
		return &wamp.Goodbye{Reason: wamp.ErrGoodbyeAndOut, Details: wamp.Dict{}}
	}
	return nil
}

func (v *vRouter) serve() {
	defer close(v.stopped)
	for {
		select {
		case m, ok := <-v.peer.Recv():
			if !ok {
				return
			}
			v.got = append(v.got, m)
			if v.auto {
				if r := v.reply(m); r != nil {
					v.peer.Send() <- r
				}
			}
		case <-v.stop:
			return
		}
	}
}

// vNewClient creates a real Client joined through a scripted router.
func vNewClient(timeout time.Duration) (*Client, *vRouter) {
	c, r := transport.LinkedPeersQSize(16)
	v := &vRouter{peer: r, auto: true, nextID: 100, stop: make(chan struct{}), stopped: make(chan struct{})}
	go func() {
		m := <-r.Recv()
		if _, ok := m.(*wamp.Hello); ok {
			r.Send() <- &wamp.Welcome{ID: 7777, Details: vRouterRoles}
		}
		v.serve()
	}()
	cl, err := NewClient(c, Config{Realm: "realm1", Logger: vNopLog{}, ResponseTimeout: timeout})
	vAssert("client-created", err == nil && cl != nil)
	return cl, v
}

func (v *vRouter) send(m wamp.Message) { v.peer.Send() <- m }
