package client

import (
	"context"
	"errors"
	"time"

	"github.com/gammazero/nexus/v3/wamp"
)

// C16: every blocking client operation returns the router's reply to its own
// request, once; Call honours cancellation; invocation handlers run once.

func vFindReq[T wamp.Message](rt *vRouter) (T, bool) {
	var zero T
	for _, m := range rt.got {
		if t, ok := m.(T); ok {
			return t, true
		}
	}
	return zero, false
}

// two API goroutines, replies in either order, plus a stray reply
func vC16Correlation(budget int) {
	cl, rt := vNewClient(2 * time.Second)
	rt.auto = false
	var subErr, regErr error
	sd, rd := make(chan struct{}), make(chan struct{})
	vSetPreempt(budget)
	go func() {
		defer close(sd)
		subErr = cl.Subscribe("topic.a", func(*wamp.Event) {}, nil)
	}()
	go func() {
		defer close(rd)
		regErr = cl.Register("proc.b", func(context.Context, *wamp.Invocation) InvokeResult { return InvokeResult{} }, nil)
	}()
	vQuiesce()
	sub, ok1 := vFindReq[*wamp.Subscribe](rt)
	reg, ok2 := vFindReq[*wamp.Register](rt)
	vAssert("both-requests-sent", ok1 && ok2)
	if !ok1 || !ok2 {
		return
	}
	vAssert("distinct-request-ids", sub.Request != reg.Request)
	order := vChoice("reply.order", 2)
	stray := vChoice("stray", 3)
	if stray == 1 {
		rt.send(&wamp.Subscribed{Request: wamp.ID(vUint64("stray.req")), Subscription: 999})
	}
	if order == 0 {
		rt.send(&wamp.Subscribed{Request: sub.Request, Subscription: 501})
		rt.send(&wamp.Registered{Request: reg.Request, Registration: 502})
	} else {
		rt.send(&wamp.Registered{Request: reg.Request, Registration: 502})
		rt.send(&wamp.Subscribed{Request: sub.Request, Subscription: 501})
	}
	if stray == 2 {
		// duplicates of both replies
		rt.send(&wamp.Subscribed{Request: sub.Request, Subscription: 777})
		rt.send(&wamp.Registered{Request: reg.Request, Registration: 778})
	}
	<-sd
	<-rd
	vSetPreempt(0)
	vQuiesce()
	if stray == 1 {
		// a stray reply may only matter if it happens to carry one of the two ids
		vCover("stray-reply")
	}
	sid, sok := cl.SubscriptionID("topic.a")
	rid, rok := cl.RegistrationID("proc.b")
	if stray != 1 {
		vAssert("each-call-got-its-own-reply", subErr == nil && regErr == nil && sok && rok && sid == 501 && rid == 502)
	}
	cl.sess.Lock()
	n := len(cl.awaitingReply)
	cl.sess.Unlock()
	vAssert("no-reply-slot-left-behind", n == 0)
	vCover("correlation-checked")
}

func Harness_C16_Correlation_0() { vC16Correlation(0) }
func Harness_C16_Correlation_2() { vC16Correlation(2) }

// the reply never comes, or comes exactly when the timer fires
func Harness_C16_ReplyTimeout() {
	cl, rt := vNewClient(2 * time.Second)
	rt.auto = false
	var err error
	done := make(chan struct{})
	go func() {
		defer close(done)
		err = cl.Subscribe("topic.a", func(*wamp.Event) {}, nil)
	}()
	vQuiesce()
	sub, ok := vFindReq[*wamp.Subscribe](rt)
	vAssert("request-sent", ok)
	late := vBool("reply.arrives.late")
	vAdvance(int64(2100) * 1000000)
	if late {
		rt.send(&wamp.Subscribed{Request: sub.Request, Subscription: 501})
	}
	<-done
	vAssert("timeout-error", errors.Is(err, ErrReplyTimeout))
	vQuiesce()
	cl.sess.Lock()
	n := len(cl.awaitingReply)
	cl.sess.Unlock()
	vAssert("no-reply-slot-left-behind", n == 0)
	// the client keeps working
	rt.auto = true
	vAssert("later-call-works", cl.Subscribe("topic.b", func(*wamp.Event) {}, nil) == nil)
	vCover("timeout-checked")
}

// Call: progressive results in order and not after Call returned; cancellation
func Harness_C16_CallProgressAndCancel() {
	cl, rt := vNewClient(2 * time.Second)
	rt.auto = false
	mode := []string{wamp.CancelModeKill, wamp.CancelModeKillNoWait, wamp.CancelModeSkip}[vChoice("cancel.mode", 3)]
	vAssert("set-mode", cl.SetCallCancelMode(mode) == nil)
	var seen []any
	returned := false
	progAfterReturn := false
	ctx, cancel := context.WithCancel(context.Background())
	var res *wamp.Result
	var err error
	done := make(chan struct{})
	go func() {
		defer close(done)
		res, err = cl.Call(ctx, "proc", nil, wamp.List{1}, nil, func(r *wamp.Result) {
			if returned {
				progAfterReturn = true
			}
			seen = append(seen, r.Arguments[0])
		})
		returned = true
	}()
	vQuiesce()
	call, ok := vFindReq[*wamp.Call](rt)
	vAssert("call-sent", ok && call.Options["receive_progress"] == any(true))
	if !ok {
		return
	}
	nProg := vChoice("progress.count", 3)
	for i := 0; i < nProg; i++ {
		rt.send(&wamp.Result{Request: call.Request, Details: wamp.Dict{"progress": true}, Arguments: wamp.List{i}})
	}
	switch vChoice("ending", 3) {
	case 0: // final result
		rt.send(&wamp.Result{Request: call.Request, Details: wamp.Dict{}, Arguments: wamp.List{"final"}})
		<-done
		vAssert("final-result-returned", err == nil && res != nil && res.Arguments[0] == any("final"))
	case 1: // error
		rt.send(&wamp.Error{Type: wamp.CALL, Request: call.Request, Error: "some.error", Details: wamp.Dict{}})
		<-done
		_, isRPC := err.(RPCError)
		vAssert("rpc-error-returned", res == nil && isRPC)
	case 2: // the caller cancels
		vQuiesce()
		cancel()
		vQuiesce()
		cn, okc := vFindReq[*wamp.Cancel](rt)
		vAssert("cancel-sent-with-configured-mode", okc && cn.Request == call.Request && cn.Options["mode"] == any(mode))
		// a progressive result may still be in flight; then the dealer's error
		rt.send(&wamp.Result{Request: call.Request, Details: wamp.Dict{"progress": true}, Arguments: wamp.List{99}})
		rt.send(&wamp.Error{Type: wamp.CALL, Request: call.Request, Error: wamp.ErrCanceled, Details: wamp.Dict{}})
		<-done
		vAssert("context-error-returned", errors.Is(err, context.Canceled))
		vCover("call-cancelled")
	}
	cancel()
	vQuiesce()
	vAssert("progress-in-order", len(seen) >= nProg)
	for i := 0; i < nProg && i < len(seen); i++ {
		vAssert("progress-order", seen[i] == any(i))
	}
	vAssert("no-progress-after-return", !progAfterReturn)
	cl.sess.Lock()
	n := len(cl.awaitingReply)
	cl.sess.Unlock()
	vAssert("no-reply-slot-left-behind", n == 0)
	vCover("call-checked")
}

// invocation handlers: once per invocation, interrupted by INTERRUPT/timeout,
// exactly one YIELD or ERROR
func Harness_C16_InvocationHandling() {
	cl, rt := vNewClient(2 * time.Second)
	runs := 0
	sawCancel := false
	block := vBool("handler.waits.for.cancel")
	err := cl.Register("p", func(ctx context.Context, inv *wamp.Invocation) InvokeResult {
		runs++
		if block {
			<-ctx.Done()
			sawCancel = true
			return InvocationCanceled
		}
		return InvokeResult{Args: wamp.List{"r"}}
	}, nil)
	vAssert("registered", err == nil)
	regID, _ := cl.RegistrationID("p")
	rt.got = nil
	details := wamp.Dict{}
	interrupt := false
	hugeTimeout := false
	switch vChoice("scenario", 5) {
	case 0: // plain invocation
	case 1: // invocation then INTERRUPT
		interrupt = true
	case 2: // callee-side timeout in the details
		details["timeout"] = int64(50)
	case 3: // the same invocation id delivered twice
	case 4: // a forwarded timeout of centuries (any value whose conversion to nanoseconds overflows)
		t := vInt64("huge.timeout.ms")
		vAssume(t > 9223372036854)
		details["timeout"] = t
		hugeTimeout = true
	}
	sc := 0
	_ = sc
	rt.send(&wamp.Invocation{Request: 5, Registration: regID, Details: details, Arguments: wamp.List{1}})
	if (details["timeout"] == nil || hugeTimeout) && !interrupt && block {
		// nothing will ever cancel this handler: interrupt it so the scenario ends
		interrupt = true
	}
	vQuiesce()
	if hugeTimeout && block {
		vAdvance(int64(50) * 1000000)
		vQuiesce()
		vAssert("handler-not-cancelled-before-its-timeout", !sawCancel)
	}
	dup := vChoice("duplicate", 2) == 1
	if dup {
		rt.send(&wamp.Invocation{Request: 5, Registration: regID, Details: wamp.Dict{}, Arguments: wamp.List{1}})
		vQuiesce()
	}
	if interrupt {
		rt.send(&wamp.Interrupt{Request: 5, Options: wamp.Dict{"mode": "killnowait"}})
	}
	vAdvance(int64(100) * 1000000)
	vQuiesce()
	nYield, nErr := 0, 0
	for _, m := range rt.got {
		switch mm := m.(type) {
		case *wamp.Yield:
			if mm.Request == 5 {
				nYield++
			}
		case *wamp.Error:
			if mm.Request == 5 && mm.Type == wamp.INVOCATION {
				nErr++
			}
		}
	}
	vAssert("handler-ran-once", runs == 1)
	vAssert("exactly-one-answer-with-invocation-id", nYield+nErr == 1)
	if block {
		vAssert("handler-saw-cancellation", sawCancel && nErr == 1)
		vCover("handler-cancelled")
	} else {
		vAssert("yield-sent", nYield == 1)
	}
	vAssert("close-returns", cl.Close() == nil)
	vCover("invocation-checked")
}

// a progress handler that is still busy when the call ends (result, error,
// cancellation): Call returns only after the handler has finished
func Harness_C16_CallWaitsForProgressHandler() {
	cl, rt := vNewClient(2 * time.Second)
	rt.auto = false
	gate := make(chan struct{})
	inHandler, handlerDone, returned, early := false, false, false, false
	ctx, cancel := context.WithCancel(context.Background())
	defer cancel()
	progressive := vBool("use-CallProgressive")
	done := make(chan struct{})
	go func() {
		defer close(done)
		h := func(r *wamp.Result) {
			inHandler = true
			<-gate
			handlerDone = true
		}
		if progressive {
			sent := false
			_, _ = cl.CallProgressive(ctx, "proc", func(ctx context.Context) (wamp.Dict, wamp.List, wamp.Dict, error) {
				if sent {
					return nil, nil, nil, nil
				}
				sent = true
				return nil, wamp.List{1}, nil, nil
			}, h)
		} else {
			_, _ = cl.Call(ctx, "proc", nil, wamp.List{1}, nil, h)
		}
		if inHandler && !handlerDone {
			early = true
		}
		returned = true
	}()
	vQuiesce()
	call, ok := vFindReq[*wamp.Call](rt)
	vAssert("call-sent", ok)
	if !ok {
		close(gate)
		return
	}
	rt.send(&wamp.Result{Request: call.Request, Details: wamp.Dict{"progress": true}, Arguments: wamp.List{0}})
	vQuiesce()
	vAssert("handler-running", inHandler && !handlerDone)
	switch vChoice("ending", 3) {
	case 0:
		rt.send(&wamp.Result{Request: call.Request, Details: wamp.Dict{}, Arguments: wamp.List{"final"}})
	case 1:
		rt.send(&wamp.Error{Type: wamp.CALL, Request: call.Request, Error: "some.error", Details: wamp.Dict{}})
	case 2:
		cancel()
		vQuiesce()
		rt.send(&wamp.Error{Type: wamp.CALL, Request: call.Request, Error: wamp.ErrCanceled, Details: wamp.Dict{}})
	}
	vQuiesce()
	vAssert("call-does-not-return-while-its-progress-handler-runs", !returned)
	close(gate)
	<-done
	vAssert("handler-finished-before-return", handlerDone && !early)
	vCover("call-waited-for-handler")
}

// a cancelled call whose reply does not come within the response timeout; the
// reply arrives late (or twice): it is dropped, later requests work, Close returns
func Harness_C16_LateReplyAfterCancel() {
	cl, rt := vNewClient(500 * time.Millisecond)
	rt.holdCall = true
	mode := []string{wamp.CancelModeKill, wamp.CancelModeKillNoWait, wamp.CancelModeSkip}[vChoice("cancel.mode", 3)]
	vAssert("set-mode", cl.SetCallCancelMode(mode) == nil)
	ctx, cancel := context.WithCancel(context.Background())
	var err error
	done := make(chan struct{})
	go func() {
		defer close(done)
		_, err = cl.Call(ctx, "proc", nil, wamp.List{1}, nil, func(*wamp.Result) {})
	}()
	vQuiesce()
	call, ok := vFindReq[*wamp.Call](rt)
	vAssert("call-sent", ok)
	if !ok {
		cancel()
		return
	}
	cancel()
	vQuiesce()
	_, okc := vFindReq[*wamp.Cancel](rt)
	vAssert("cancel-sent", okc)
	// the router does not answer the CANCEL within the response timeout
	if vBool("progressive-results-keep-coming-meanwhile") {
		// (the callee is slow to react to its INTERRUPT)
		for i := 0; i < 4; i++ {
			vAdvance(int64(200 * time.Millisecond))
			rt.send(&wamp.Result{Request: call.Request, Details: wamp.Dict{"progress": true}, Arguments: wamp.List{i}})
			vQuiesce()
		}
	} else {
		vAdvance(int64(700 * time.Millisecond))
	}
	vQuiesce()
	select {
	case <-done:
	default:
		vAssert("cancelled-call-returns-after-the-response-timeout", false)
		return
	}
	vAssert("call-reports-an-error", err != nil)
	// now the answers trickle in
	late := vChoice("late", 3)
	if late >= 1 {
		rt.send(&wamp.Error{Type: wamp.CALL, Request: call.Request, Error: wamp.ErrCanceled, Details: wamp.Dict{}})
	}
	if late == 2 {
		rt.send(&wamp.Result{Request: call.Request, Details: wamp.Dict{}, Arguments: wamp.List{"late"}})
	}
	vQuiesce()
	// the client still works
	var serr error
	sdone := make(chan struct{})
	go func() {
		defer close(sdone)
		serr = cl.Subscribe("t", func(*wamp.Event) {}, nil)
	}()
	vQuiesce()
	vAdvance(int64(700 * time.Millisecond))
	vQuiesce()
	select {
	case <-sdone:
		vAssert("later-request-answered", serr == nil)
	default:
		vAssert("later-request-returns", false)
		return
	}
	cl.sess.Lock()
	n := len(cl.awaitingReply)
	cl.sess.Unlock()
	vAssert("no-reply-slot-left-behind", n == 0)
	cdone := make(chan struct{})
	go func() { cl.Close(); close(cdone) }()
	vQuiesce()
	vAdvance(int64(2 * time.Second))
	vQuiesce()
	select {
	case <-cdone:
	default:
		vAssert("close-returns", false)
	}
	vCover("late-reply-after-cancel-done")
}

// INVOCATION and its INTERRUPT processed back to back (both were queued while
// the receive loop was busy in an event handler): the invocation is answered
// by exactly one ERROR canceled; a handler that did start saw its context
// cancelled
func Harness_C16_InterruptRightAfterInvocation() {
	cl, rt := vNewClient(2 * time.Second)
	gate := make(chan struct{})
	inEvent := make(chan struct{})
	err := cl.Subscribe("t", func(*wamp.Event) {
		close(inEvent)
		<-gate
	}, nil)
	vAssert("subscribed", err == nil)
	subID, _ := cl.SubscriptionID("t")
	runs, sawCancel := 0, 0
	waits := vBool("handler.waits.for.cancel")
	err = cl.Register("p", func(ctx context.Context, inv *wamp.Invocation) InvokeResult {
		runs++
		if waits {
			<-ctx.Done()
			sawCancel++
			return InvocationCanceled
		}
		if ctx.Err() != nil {
			sawCancel++
		}
		return InvokeResult{Args: wamp.List{"r"}}
	}, nil)
	vAssert("registered", err == nil)
	regID, _ := cl.RegistrationID("p")
	rt.got = nil
	rt.send(&wamp.Event{Subscription: subID, Publication: 1, Details: wamp.Dict{}})
	<-inEvent // the receive loop is inside the event handler
	rt.send(&wamp.Invocation{Request: 5, Registration: regID, Details: wamp.Dict{}, Arguments: wamp.List{1}})
	rt.send(&wamp.Interrupt{Request: 5, Options: wamp.Dict{"mode": "killnowait"}})
	close(gate)
	vQuiesce()
	vAdvance(int64(100) * 1000000)
	vQuiesce()
	nYield, nErr := 0, 0
	for _, m := range rt.got {
		switch mm := m.(type) {
		case *wamp.Yield:
			if mm.Request == 5 {
				nYield++
			}
		case *wamp.Error:
			if mm.Request == 5 && mm.Type == wamp.INVOCATION {
				nErr++
			}
		}
	}
	vAssert("handler-ran-at-most-once", runs <= 1)
	if waits {
		vAssert("interrupted-invocation-answered-by-one-error", nErr == 1 && nYield == 0)
		vAssert("started-handler-saw-cancellation", sawCancel == runs)
	} else {
		vAssert("exactly-one-answer", nErr+nYield == 1)
	}
	done := make(chan struct{})
	go func() { cl.Close(); close(done) }()
	vQuiesce()
	vAdvance(int64(5 * time.Second))
	vQuiesce()
	select {
	case <-done:
	default:
		vAssert("close-returns", false)
	}
	vCover("interrupt-after-invocation-checked")
}

// SubscribeChan: events handed to the application's channel arrive there in
// the order the router sent them, however slowly the application reads
func vC16SubscribeChanOrder(budget int) {
	cl, rt := vNewClient(2 * time.Second)
	events := make(chan *wamp.Event, vChoice("channel-capacity", 2))
	err := cl.SubscribeChan("t", events, nil)
	vAssert("subscribed", err == nil)
	subID, _ := cl.SubscriptionID("t")
	vSetPreempt(budget)
	const n = 3
	sent := make(chan struct{})
	go func() {
		for k := 1; k <= n; k++ {
			rt.send(&wamp.Event{Subscription: subID, Publication: wamp.ID(k), Details: wamp.Dict{}, Arguments: wamp.List{k}})
		}
		close(sent)
	}()
	// the application is busy for a while, then reads
	vQuiesce()
	last := wamp.ID(0)
	for k := 1; k <= n; k++ {
		ev := <-events
		vAssert("events-reach-the-channel-in-arrival-order", ev.Publication > last)
		last = ev.Publication
		if vBool("application-pauses-between-reads") {
			vQuiesce()
		}
	}
	<-sent
	vSetPreempt(0)
	done := make(chan struct{})
	go func() { cl.Close(); close(done) }()
	vQuiesce()
	vAdvance(int64(5 * time.Second))
	vQuiesce()
	select {
	case <-done:
	default:
		vAssert("close-returns", false)
	}
	vCover("subscribe-chan-order-checked")
}

func Harness_C16_SubscribeChanOrder_1() { vC16SubscribeChanOrder(1) }
func Harness_C16_SubscribeChanOrder_2() { vC16SubscribeChanOrder(2) }

// a progressive call invocation of many chunks arriving while the handler is
// still busy with the first one: every chunk reaches the same handler run, in
// order, and the invocation is answered by exactly one YIELD
func Harness_C16_ProgressiveInvocationBacklog() {
	cl, rt := vNewClient(2 * time.Second)
	n := []int{3, 20, 40}[vChoice("chunks", 3)]
	gate := make(chan struct{})
	started := make(chan struct{})
	var seen []int64
	err := cl.Register("p", func(ctx context.Context, inv *wamp.Invocation) InvokeResult {
		k, _ := wamp.AsInt64(inv.Arguments[0])
		seen = append(seen, k)
		if k == 1 {
			close(started)
			<-gate
		}
		if prog, _ := inv.Details["progress"].(bool); prog {
			return InvokeResult{Err: wamp.InternalProgressiveOmitResult}
		}
		return InvokeResult{Args: wamp.List{"done"}}
	}, nil)
	vAssert("registered", err == nil)
	regID, _ := cl.RegistrationID("p")
	rt.got = nil
	sent := make(chan struct{})
	go func() {
		defer close(sent)
		for k := 1; k <= n; k++ {
			d := wamp.Dict{}
			if k < n {
				d["progress"] = true
			}
			rt.send(&wamp.Invocation{Request: 5, Registration: regID, Details: d, Arguments: wamp.List{int64(k)}})
		}
	}()
	<-started
	vQuiesce() // the backlog builds up behind the busy handler
	close(gate)
	<-sent
	vQuiesce()
	vAssert("every-chunk-handled", len(seen) == n)
	for i, k := range seen {
		vAssert("chunks-in-order", k == int64(i+1))
	}
	nYield, nErr := 0, 0
	for _, m := range rt.got {
		switch mm := m.(type) {
		case *wamp.Yield:
			if mm.Request == 5 {
				nYield++
			}
		case *wamp.Error:
			if mm.Type == wamp.INVOCATION {
				nErr++
			}
		}
	}
	vAssert("answered-by-exactly-one-yield", nYield == 1 && nErr == 0)
	vAssert("close-returns", cl.Close() == nil)
	vCover("backlog-handled")
}

// CallProgressive: the data callback marks the final chunk by progress=false
// or, as documented, by leaving the option unset (empty or nil options). The
// chunks go out in order under one request id and the call returns the
// router's final result.
func Harness_C16_CallProgressiveChunks() {
	cl, rt := vNewClient(2 * time.Second)
	rt.holdCall = true
	n := 1 + vChoice("chunks", 3)
	finalKind := vChoice("final-chunk-options", 3) // {progress:false}, {}, nil
	k := 0
	send := func(ctx context.Context) (wamp.Dict, wamp.List, wamp.Dict, error) {
		k++
		if k < n {
			return wamp.Dict{"progress": true}, wamp.List{k}, nil, nil
		}
		switch finalKind {
		case 0:
			return wamp.Dict{"progress": false}, wamp.List{k}, nil, nil
		case 1:
			return wamp.Dict{}, wamp.List{k}, nil, nil
		}
		return nil, wamp.List{k}, nil, nil
	}
	var res *wamp.Result
	var err error
	done := make(chan struct{})
	go func() {
		defer close(done)
		res, err = cl.CallProgressive(context.Background(), "p", send, nil)
	}()
	vQuiesce()
	var calls []*wamp.Call
	for _, m := range rt.got {
		if c, ok := m.(*wamp.Call); ok {
			calls = append(calls, c)
		}
	}
	vAssert("every-chunk-sent-once", len(calls) == n)
	for i, c := range calls {
		vAssert("chunks-share-the-request-id-and-keep-their-order", c.Request == calls[0].Request && len(c.Arguments) == 1 && c.Arguments[0] == any(i+1))
		prog, _ := c.Options["progress"].(bool)
		vAssert("only-the-last-chunk-is-final", prog == (i < n-1))
	}
	if len(calls) > 0 {
		rt.send(&wamp.Result{Request: calls[0].Request, Details: wamp.Dict{}, Arguments: wamp.List{"done"}})
	}
	vQuiesce()
	select {
	case <-done:
		vAssert("call-returns-the-final-result", err == nil && res != nil && len(res.Arguments) == 1 && res.Arguments[0] == any("done"))
	default:
		vAssert("call-returns", false)
	}
	vAssert("close-returns", cl.Close() == nil)
	vCover("progressive-call-done")
}
