#!/usr/bin/env python3
# seed_regress.py [ids...]: fast regression over the seeded changes: for each seed run only the harness recorded as
# catching it (tools/seed_try.sh, scratch worktree) and expect a VIOLATION. Prints one line per seed.
import json,glob,re,subprocess,sys,os
ids=sys.argv[1:] or sorted(os.path.basename(os.path.dirname(f)) for f in glob.glob('/verif/seeded/C*/meta.json'))
props=json.load(open('/verif/harness/props.json'))
for sid in ids:
    m=json.load(open('/verif/seeded/%s/meta.json'%sid))
    if m.get('class')=='not-applicable':
        print(sid,'n/a'); continue
    prop=m['property']; h=None
    for l in m.get('last_eval',[]):
        mm=re.search(r'VIOLATION property=(C\d\d) replay=\S*?/(Harness_[A-Za-z0-9_]+)-',l)
        if mm: prop,h=mm.group(1),mm.group(2); break
    if not h or m.get('round')==3:
        mm=re.findall(r'Harness_[A-Za-z0-9_]+',m.get('verdict',''))
        if mm: h=mm[-1] if 'caught after' in m.get('verdict','') else mm[0]
    reg=[x['name'] for x in props[prop]['harnesses']]
    if h not in reg:
        print(sid,'SKIP harness',h,'not registered for',prop, flush=True); continue
    r=subprocess.run(['/verif/tools/seed_try.sh',sid,prop,h],capture_output=True,text=True)
    v=len(re.findall(r'^VIOLATION',r.stdout,re.M))
    print(sid,prop,h,'rc=%d'%r.returncode,'violations=%d'%v, 'OK' if r.returncode==1 and v>0 else 'MISS', flush=True)
