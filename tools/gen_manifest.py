#!/usr/bin/env python3
# Regenerates /verif/MANIFEST.json from harness/props.json and tools/na.json.
import json
props=[json.loads(l) for l in open('/verif/properties.jsonl')]
hp=json.load(open('/verif/harness/props.json'))
na=json.load(open('/verif/tools/na.json'))
notes=json.load(open('/verif/tools/level_notes.json'))
m={
 "version":1,
 "setup_cmd":"cd /verif/engine && GOFLAGS=-mod=mod GOPROXY=off GOSUMDB=off GOTOOLCHAIN=local go1.26.8 build -o /verif/bin/gosym ./cmd/gosym",
 "hooks":{"guard":"verif","enable":"no hooks: harnesses are in-package files injected by go/packages Overlay and `go test -overlay`; /repo is never modified by the machinery","baseline_off_cmd":"cd /repo && go test -mod=mod -json -vet=off -count=1 -timeout 25m ./...","source_commits":[],"add_only":True},
 "engines":[{"name":"gosym","path":"/verif/engine","serves_properties":sorted(hp.keys()),"kind_free_text":"symbolic executor for go/ssa (x/tools v0.50.0) emitting SMT-LIB2 to z3; path exploration by re-execution with decision prefixes; explicit goroutines/channels/virtual time; native replay of solver models via go test -overlay"}],
 "checks":[],
 "notes":"see DESIGN.md; known findings and fixes in known_findings.json",
 "not_applicable":[]
}
for p in props:
    pid=p['id']
    if pid in hp:
        n=notes.get(pid,{})
        m['checks'].append({
          "property_id":pid,
          "quick_cmd":"./check %s --tier quick"%pid,
          "thorough_cmd":"./check %s --tier thorough"%pid,
          "evidence_file":"/verif/evidence/%s.json"%pid,
          "replay_cmd_template":"./check --replay {path}",
          "engine":"gosym",
          "level_claimed":{"category":"model_checking","text":n.get("text","bounded symbolic execution of the real SSA of the anchored functions; every assertion and the implicit no-panic/no-deadlock obligations are decided by z3 over all values within the bounds listed in the evidence file; counterexamples are replayed natively before being reported"),"design_ref":"DESIGN.md §6 "+pid},
          "level_note":n.get("note","trusted: go/ssa construction, the gosym interpreter and its library models (listed per run in the evidence file), z3; bounds and what lies outside them are listed in the evidence file (assumptions) and DESIGN.md"),
          "technique":"SMT-based bounded symbolic execution of Go SSA (gosym + z3) with native replay of models"
        })
    else:
        m['not_applicable'].append({"property_id":pid,"reason":na.get(pid,"check not built yet (work in progress; see DESIGN.md §6 for the plan)")})
json.dump(m,open('/verif/MANIFEST.json','w'),indent=1)
print("claimed:",sorted(hp.keys()))
