#!/usr/bin/env python3
# writes meta.json for the round-3 seeds (-e/-f) and regenerates seeded/README.md from all meta.json files
import json,os,glob
R3={
"C01-e":("HELLO carrying an authrole/authid of its own, then a PUBLISH with eligible_/exclude_ lists on that attribute","missed (filters were checked on a bare broker); caught after adding Harness_C01_FilterOnSessionRecord (whole router; needed a model of maps.clone)"),
"C01-f":("wildcard subscription with a component that is a proper prefix of the topic's component","caught by the checks as they were (Harness_C19_WildcardMatch_3, registered for C01)"),
"C02-e":("callee that announced neither the caller nor the callee role leaves with an invocation pending","missed (dealer-level harnesses); caught after adding Harness_C02_RouterCallEndings (whole router, role sets x ways of ending)"),
"C02-f":("progressive call invocation whose last chunk is never marked done, then the final YIELD","caught by the checks as they were (Harness_C02_ProgressiveInvocationLifecycle)"),
"C03-e":("callee killed by wamp.session.kill_all keeps its registration (same change as C18-e)","caught by the checks as they were (Harness_C05_Leave_2 registered for C03)"),
"C03-f":("caller asks for progress, callee supports progressive invocations but not progressive results","caught by the checks as they were (Harness_C02_CallLifecycle_3, registered for C03: invocation-receive-progress)"),
"C04-e":("AllowDisclose, event history on the topic, PUBLISH with disclose_me: nil subscriber dereferenced in the broker","missed; caught after adding the event-history dimension to Harness_C04_HostilePublish"),
"C04-f":("rawsocket RecvLimit below 16 MiB and one oversize frame header: peer closed twice","found by the engine but reported INCONCLUSIVE (the native panic in the test goroutine is re-panicked by package testing and the stack matcher looked at the first frame only); caught after fixing the matcher (Harness_C15_RecvFrames)"),
"C05-e":("caller with a pending call that has no router-handled timeout leaves: invocation entry kept","missed (pending calls always had a timeout); caught after making the timeouts of Harness_C05_Leave_2 symbolic"),
"C05-f":("session killed with reason wamp.close.system_shutdown treated as realm shutdown","missed; caught after adding that kill as a seventh way of ending to Harness_C05_Leave_2"),
"C06-e":("EndRecv on a session whose done channel was never created","caught by the checks as they were (Harness_C06_RemoveRealmAttachStall: a waiter on RecvDone is never woken)"),
"C06-f":("a message in the rawsocket reader's hand-over when the router closes the peer: reader goroutine left behind","missed; caught after adding Harness_C06_RawsocketCloseWithUnreadMessage (+ websocket twin)"),
"C07-e":("peer Close() moved into the realm's action goroutine: a slow-closing transport stalls joins, leaves and the meta API","missed; caught after adding Harness_C07_SlowClosingPeer"),
"C07-f":("PUBLISHED sent with a blocking select: a publisher with a full queue wedges its own handler, its departure is never processed","missed; caught after adding Harness_C07_StalledRequester"),
"C08-e":("blocked INVOCATION retried 10 ms later and overtaken by the next call","found by the engine, not reproducible natively with real timers; caught after adding Harness_C08_CallOrderFullQueue and the virtual-clock (synctest) replay mode"),
"C08-f":("SubscribeChan hands events over in background goroutines when the channel is not ready","missed (no client-side ordering harness); caught after adding Harness_C16_SubscribeChanOrder_1 (registered for C08 and C16)"),
"C09-e":("HELLO with a non-empty roles dict that names no known role","caught by the checks as they were (Harness_C09_Matrix)"),
"C09-f":("wampcra with an unknown authid: empty key instead of a random one","caught by the checks as they were (Harness_C09_Matrix)"),
"C10-e":("Authorizer returning (true, err) treated as a refusal","caught by the checks as they were (Harness_C10_Authorizer)"),
"C10-f":("RequireLocalAuth makes local sessions subject to the Authorizer","caught by the checks as they were (Harness_C10_Authorizer)"),
"C11-e":("realm template with event history: the history store cached in the shared topic configuration","missed; caught after adding Harness_C11_SharedConfigObjects"),
"C11-f":("one RealmConfig value adjusted between two AddRealm calls: the realm aliases it","INCONCLUSIVE first (a harness built a realm struct literal and no longer compiled); after rewriting that harness through the public configuration: missed; caught after adding Harness_C11_SharedConfigObjects"),
"C12-e":("event history reuses the event built for the last live subscriber (identity, aliasing)","missed; caught after adding Harness_C20_RetainedNotTheDeliveredEvent (registered for C12 and C20)"),
"C12-f":("disallowed disclose_me CALL refused only if the callee announced caller_identification","caught by the checks as they were (Harness_C12_CallDisclosure)"),
"C13-e":("huge timeout whose conversion to Duration wraps to a positive value","caught by the checks as they were (Harness_C13_TimeoutArithmetic)"),
"C13-f":("timer not stopped by a final YIELD whose clean-up is deferred (blocked caller / unfinished progressive invocation)","missed; caught after adding Harness_C13_NoTimeoutAfterFinalYield (virtual-clock replay)"),
"C14-e":("kwargs-only YIELD/RESULT lose their position on the wire","caught by the checks as they were (Harness_C14_ListRoundTrip)"),
"C14-f":("over-long message list with a non-null surplus element: reflect panic","found by the engine but INCONCLUSIVE (the native panic's top frame is reflect.Value.Field, the engine reports its caller); caught after matching on the first frame of the module (Harness_C14_ArbitraryList)"),
"C15-e":("rawsocket payload read with Read instead of ReadFull: fragmented payloads","caught by the checks as they were (Harness_C15_RecvFrames: scripted connection delivers in pieces)"),
"C15-f":("authorization-failure ERROR carries the Go error value: network sessions see {} instead of the text","missed; caught after adding the 'only values every transport carries' oracle to every message a harness client receives (Harness_C10_Authorizer registered for C15)"),
"C16-e":("more than 16 chunks of a progressive invocation arrive while the handler is busy: chunks dropped","missed; caught after adding Harness_C16_ProgressiveInvocationBacklog"),
"C16-f":("progressive results keep arriving after CANCEL: the response timeout restarts with each","missed; caught after adding the streaming variant to Harness_C16_LateReplyAfterCancel"),
"C17-e":("cancelled call times out and leaves its reply waiter: a late reply blocks the receive loop","missed by the C17 check (caught by C16); caught after registering Harness_C16_LateReplyAfterCancel for C17"),
"C17-f":("router reads GOODBYE but never answers: Close waits without bound","missed; caught after adding Harness_C17_RouterStopsAnswering"),
"C18-e":("kill_all victims stay in dealer and broker (same change as C03-e)","missed by the C18 check; caught after adding Harness_C18_MetaViewAfterKill (which also exposed KF-34)"),
"C18-f":("wamp.subscription.match tests prefix subscriptions the wrong way round","missed (match was probed with the subscription's own URI); caught after adding Harness_C18_MatchAgreesWithRouting"),
"C19-e":("AsID fast path for values typed wamp.ID skips the range check","caught by the checks as they were (Harness_C19_AsID)"),
"C19-f":("ValidURI memo cache keyed without the strict flag","INCONCLUSIVE first (sync.Map not modelled); after modelling it: missed; caught after adding the earlier-check dimension to Harness_C19_ValidURI_5"),
"C20-e":("history entry shares memory with the event handed to an in-process subscriber (same change as C12-e)","missed; caught after adding Harness_C20_RetainedNotTheDeliveredEvent"),
"C20-f":("exclusive time bounds made inclusive","missed (no time filters in the harnesses); caught after adding Harness_C20_QueryTimeBounds (virtual-clock replay), which also exposed KF-31"),
}
for sid,(needs,verdict) in R3.items():
    d='/verif/seeded/'+sid
    ev=[l.rstrip()[:200] for l in open(d+'/eval.log')][:4] if os.path.exists(d+'/eval.log') else []
    conf=open(d+'/confirm.log').read().strip().splitlines()[-1] if os.path.exists(d+'/confirm.log') else '?'
    cls='original' if verdict.startswith('caught by the checks as they were') else 'strengthened'
    m={"id":sid,"round":3,"property":sid[:3],
       "source":"independent sub-agent given only the property text, the conditions of the round-1 and round-2 changes to avoid, and a scratch worktree",
       "needs_to_manifest":needs,
       "confirmed":"tools/confirm_seed.sh in a scratch worktree (build, repository suite with the two flaky 10-ms-timeout client tests retried, demo fails with / passes without): "+conf,
       "checks_run":"tools/seed_eval.sh (quick tier of the property's check against a scratch worktree with the patch applied; /repo untouched)",
       "verdict":verdict,"class":cls,"last_eval":ev}
    json.dump(m,open(d+'/meta.json','w'),indent=1)
rows=[]
cnt={}
for f in sorted(glob.glob('/verif/seeded/C*/meta.json')):
    m=json.load(open(f))
    cnt[m.get('class','?')]=cnt.get(m.get('class','?'),0)+1
    rows.append("| %s | %s | %s | %s |"%(m['id'],m['property'],m.get('needs_to_manifest',''),m.get('verdict','')))
hdr=open('/verif/seeded/README.md').read().split('| id | property |')[0]
hdr=hdr.replace("`-c/-d` round 2 (round-2 agents were told which conditions round 1 had used and asked for different mechanisms).","`-c/-d` round 2, `-e/-f` round 3 (agents of later rounds were told which conditions the earlier rounds had used and asked for different mechanisms).")
out=hdr+"| id | property | needs | verdict |\n|---|---|---|---|\n"+"\n".join(rows)+"\n\nTotals: "+", ".join("%d %s"%(v,k) for k,v in sorted(cnt.items()))+".\n"
open('/verif/seeded/README.md','w').write(out)
print(cnt)
