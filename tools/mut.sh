#!/bin/bash
# mut.sh <prop> <file-in-repo> <sed-expr> [extra check args]: apply a one-line mutation to /repo, run the check, undo
prop=$1; f=$2; expr=$3; shift 3
cd /repo && git diff --quiet || { echo "/repo not clean"; exit 2; }
rm -rf /verif/work/evidence.bak; mkdir -p /verif/work; cp -r /verif/evidence /verif/work/evidence.bak
sed -i "$expr" /repo/$f
if git -C /repo diff --quiet; then echo "mutation did not change anything"; exit 2; fi
git -C /repo diff | grep '^[-+]' | grep -v '^+++\|^---'
(cd /verif && ./check $prop --tier quick "$@" 2>&1 | grep -E "^check|VIOLATION|INCONCLUSIVE|violation:" | cut -c1-250 | head -8)
git -C /repo checkout -q -- .
cp /verif/work/evidence.bak/*.json /verif/evidence/; rm -rf /verif/work/evidence.bak
