#!/bin/bash
# seed_confirm_ids.sh <id>... : confirm seeds already copied to /verif/seeded/<id> (own scratch worktree each), 3 in parallel
for s in "$@"; do
  dst=/verif/seeded/$s
  (
    wt=/tmp/confirm/wt-$s
    git -C /repo worktree remove --force $wt 2>/dev/null
    git -C /repo worktree add --detach $wt HEAD >/dev/null 2>&1
    /verif/tools/confirm_seed.sh $dst $wt > $dst/confirm.log 2>&1
    git -C /repo worktree remove --force $wt
    echo "$s: $(tail -1 $dst/confirm.log)"
  ) &
  while [ $(jobs -r | wc -l) -ge 3 ]; do sleep 2; done
done
wait
