#!/bin/bash
# seed_take.sh <PROP> <x>: copy a sub-agent's seeded change into /verif/seeded/<PROP>-<x>, confirm it in the
# scratch worktree /tmp/confirm/wt (build, repo suite, demo fails with / passes without), then run the checks on it
set -u
P=$1; X=$2; shift 2
src=/tmp/seed/$P/out/$X
dst=/verif/seeded/$P-$X
[ -f $src/patch.diff ] && [ -f $src/demo_test.go ] || { echo "missing files in $src"; exit 2; }
mkdir -p $dst
cp $src/patch.diff $src/demo_test.go $dst/
[ -f $src/notes.md ] && cp $src/notes.md $dst/
echo "--- confirm"
/verif/tools/confirm_seed.sh $dst /tmp/confirm/wt | tee $dst/confirm.log | tail -12
grep -q CONFIRMED $dst/confirm.log && ! grep -q "NOT CONFIRMED" $dst/confirm.log || { echo "seed not confirmed"; exit 1; }
echo "--- checks"
[ -f $dst/meta.json ] || echo "{\"property\": \"$P\"}" > $dst/meta.json
/verif/tools/eval_seed.sh $dst "$@" | tee $dst/eval.log
