#!/bin/bash
# seed_try.sh <seed id> <PROP> <Harness>[,<Harness>...]: run selected harnesses of one check against a seeded change
# in a scratch worktree (VERIF_REPO); /repo and /verif/evidence are not touched
set -u
id=$1; p=$2; hs=$3
sd=/verif/seeded/$id
wt=/tmp/evalwt/try-$id; out=/tmp/evalout/try-$id
rm -rf $out; mkdir -p /tmp/evalwt $out
git -C /repo worktree remove --force $wt 2>/dev/null
git -C /repo worktree add --detach $wt HEAD >/dev/null 2>&1 || { echo "cannot create worktree"; exit 2; }
git -C $wt apply "$sd/patch.diff" || { echo "patch does not apply"; git -C /repo worktree remove --force $wt; exit 2; }
rc=0
for h in ${hs//,/ }; do
  o=$(cd /verif && VERIF_REPO=$wt VERIF_OUT=$out /verif/bin/gosym check $p --tier ${TIER:-quick} --only $h 2>&1); r=$?
  [ $r -ne 0 ] && rc=$r
  echo "== $id $p $h rc=$r $(echo "$o" | grep '^check ' | cut -c1-140)"
  echo "$o" | grep -E "VIOLATION|INCONCLUSIVE|violation:" | sed "s#$out#OUT#g" | cut -c1-260 | head -6
done
git -C /repo worktree remove --force $wt
rm -rf $out
exit $rc
