#!/bin/bash
# runs the repository's test suite (guard off = plain suite); exit 1 on any failure
cd /repo || exit 2
out=$(env -u GOTOOLCHAIN -u GOFLAGS -u GOPROXY -u GOSUMDB flock /tmp/nexus-test.lock go test -mod=mod -vet=off -count=1 -timeout 25m ./... 2>&1)
echo "$out" | grep -E "^(ok|FAIL|---)" | grep -v "no test files"
if echo "$out" | grep -q "^FAIL\|^--- FAIL\|panic:"; then echo "REPO TESTS FAILED"; exit 1; fi
echo "REPO TESTS OK"
