#!/bin/bash
# seed_eval_all.sh <PROP-x>... : evaluate checks of the seed's own property for each seed, 2 at a time
for s in "$@"; do
  P=${s%-*}
  ( /verif/tools/seed_eval.sh /verif/seeded/$s $P > /dev/null 2>&1; echo "$s: $(grep -c VIOLATION /verif/seeded/$s/eval.log) violations; $(head -1 /verif/seeded/$s/eval.log | cut -c1-60)" ) &
  while [ $(jobs -r | wc -l) -ge 2 ]; do sleep 2; done
done
wait
