#!/bin/bash
# seed_confirm_all.sh <PROP-x>... : copy from /tmp/seed and confirm each (own scratch worktree per seed), in parallel
for s in "$@"; do
  P=${s%-*}; X=${s#*-}
  src=/tmp/seed/$P/out/$X; dst=/verif/seeded/$s
  [ -f $src/patch.diff ] && [ -f $src/demo_test.go ] || { echo "$s: missing files"; continue; }
  mkdir -p $dst; cp $src/patch.diff $src/demo_test.go $dst/; [ -f $src/notes.md ] && cp $src/notes.md $dst/
  (
    wt=/tmp/confirm/wt-$s
    git -C /repo worktree remove --force $wt 2>/dev/null
    git -C /repo worktree add --detach $wt HEAD >/dev/null 2>&1
    /verif/tools/confirm_seed.sh $dst $wt > $dst/confirm.log 2>&1
    git -C /repo worktree remove --force $wt
    echo "$s: $(tail -1 $dst/confirm.log)"
  ) &
  while [ $(jobs -r | wc -l) -ge 4 ]; do sleep 2; done
done
wait
