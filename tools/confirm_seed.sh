#!/bin/bash
# confirm_seed.sh <dir with patch.diff + demo_test.go> <scratch worktree>
# checks: builds, repo suite passes with the change, demo fails with / passes without
set -u
sd=$(realpath "$1"); wt=$2
unset GOFLAGS GOPROXY GOSUMDB GOTOOLCHAIN
cd "$wt" || exit 2
git checkout -q -- . ; git clean -fdq -e SEED
place=$(grep -m1 -o "place in: *[a-zA-Z0-9_/.-]*" "$sd/demo_test.go" | sed 's/place in: *//; s#/$##')
[ -z "$place" ] && { echo "NO place-in line"; exit 2; }
tname=$(grep -o "^func Test[A-Za-z0-9_]*" "$sd/demo_test.go" | sed 's/func //' | paste -sd'|')
git apply "$sd/patch.diff" || { echo "PATCH DOES NOT APPLY"; exit 1; }
go build ./... || { echo "BUILD FAILS"; git checkout -q -- .; exit 1; }
suite=$(flock /tmp/nexus-test.lock go test -mod=mod -vet=off -count=1 ./... 2>&1)
if echo "$suite" | grep -q "^FAIL\|^--- FAIL\|panic:"; then echo "SUITE FAILS WITH CHANGE"; echo "$suite" | grep -m5 "FAIL"; git checkout -q -- .; exit 1; fi
cp "$sd/demo_test.go" "$place/zz_seed_demo_test.go"
with=$(flock /tmp/nexus-test.lock timeout 120 go test -mod=mod -vet=off -count=1 -run "^($tname)\$" ./$place/ 2>&1); rcw=$?
git apply -R "$sd/patch.diff"
without=$(flock /tmp/nexus-test.lock timeout 120 go test -mod=mod -vet=off -count=1 -run "^($tname)\$" ./$place/ 2>&1); rco=$?
rm -f "$place/zz_seed_demo_test.go"; git checkout -q -- .
echo "demo with change: rc=$rcw ; without: rc=$rco"
if [ $rcw -ne 0 ] && [ $rco -eq 0 ]; then echo "CONFIRMED"; exit 0; fi
echo "--- with:"; echo "$with" | tail -8; echo "--- without:"; echo "$without" | tail -8
echo "NOT CONFIRMED"; exit 1
