#!/bin/bash
# confirm_seed.sh <dir with patch.diff + demo_test.go> <scratch worktree>
# checks: builds, repo suite passes with the change, demo fails with / passes without
set -u
sd=$(realpath "$1"); wt=$2
unset GOFLAGS GOPROXY GOSUMDB GOTOOLCHAIN
cd "$wt" || exit 2
git checkout -q -- . ; git clean -fdq -e SEED
place=$(grep -m1 -o "place in: *[a-zA-Z0-9_/.-]*" "$sd/demo_test.go" | sed 's/place in: *//; s#/$##')
[ -z "$place" ] && { echo "NO place-in line"; exit 2; }
tname=$(grep -o "^func Test[A-Za-z0-9_]*" "$sd/demo_test.go" | sed 's/func //' | paste -sd'|')
git apply "$sd/patch.diff" || { echo "PATCH DOES NOT APPLY"; exit 1; }
go build ./... || { echo "BUILD FAILS"; git checkout -q -- .; exit 1; }
suite=$(unshare -n sh -c "ip link set lo up && go test -mod=mod -vet=off -count=1 ./..." 2>&1)
if echo "$suite" | grep -q "^FAIL\|^--- FAIL\|panic:"; then
  # timing-sensitive tests (10 ms response timeouts) are flaky on a loaded machine: a failure counts only if
  # the failing tests, re-run on their own, fail five times in a row
  fp=$(echo "$suite" | grep "^FAIL\s" | awk '{print $2}' | grep gammazero | sort -u | tr '\n' ' ')
  ft=$(echo "$suite" | grep -o "^--- FAIL: Test[A-Za-z0-9_]*" | sed 's/--- FAIL: //' | sort -u | paste -sd'|')
  still=1
  if [ -n "$fp" ] && [ -z "$ft" ]; then ft='.*'; fi   # package timed out / crashed without naming a test: re-run it whole
  if [ -n "$fp" ] && [ -n "$ft" ]; then
    for try in 1 2 3 4 5; do
      again=$(unshare -n sh -c "ip link set lo up && go test -mod=mod -vet=off -count=1 -run '^($ft)\$' $fp" 2>&1)
      if ! echo "$again" | grep -q "^FAIL\|^--- FAIL\|panic:"; then still=0; break; fi
    done
  fi
  if [ $still -eq 1 ]; then echo "SUITE FAILS WITH CHANGE"; echo "$suite" | grep -m5 "FAIL"; git checkout -q -- .; exit 1; fi
  echo "(suite: flaky failure of $ft in $fp, passed on retry)"
fi
cp "$sd/demo_test.go" "$place/zz_seed_demo_test.go"
with=$(timeout 120 unshare -n sh -c "ip link set lo up && go test -mod=mod -vet=off -count=1 -run '^($tname)\$' ./$place/" 2>&1); rcw=$?
git apply -R "$sd/patch.diff"
without=$(timeout 120 unshare -n sh -c "ip link set lo up && go test -mod=mod -vet=off -count=1 -run '^($tname)\$' ./$place/" 2>&1); rco=$?
rm -f "$place/zz_seed_demo_test.go"; git checkout -q -- .
echo "demo with change: rc=$rcw ; without: rc=$rco"
if [ $rcw -ne 0 ] && [ $rco -eq 0 ]; then echo "CONFIRMED"; exit 0; fi
echo "--- with:"; echo "$with" | tail -8; echo "--- without:"; echo "$without" | tail -8
echo "NOT CONFIRMED"; exit 1
