#!/bin/bash
# runs every registered check's quick (or $1) tier; prints one line each
tier=${1:-quick}
cd /verif
for p in $(python3 -c "import json;print(' '.join(sorted(json.load(open('harness/props.json')).keys())))"); do
  s=$(date +%s)
  out=$(./check $p --tier $tier 2>&1); rc=$?
  e=$(date +%s)
  echo "$p rc=$rc $((e-s))s $(echo "$out" | grep '^check ' | cut -c1-160)"
  if [ $rc -ne 0 ]; then echo "$out" | grep -E "VIOLATION|INCONCLUSIVE|KNOWN" | cut -c1-300 | head -5; fi
done
