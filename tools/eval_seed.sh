#!/bin/bash
# eval_seed.sh <seeded/<id> dir> [props...] : apply the seeded change to /repo, run checks, undo
set -u
sd=$(realpath "$1"); shift
props="$@"
[ -z "$props" ] && props=$(python3 -c "import json;print(json.load(open('$sd/meta.json'))['property'])")
cd /repo && git diff --quiet || { echo "/repo not clean"; exit 2; }
rm -rf /verif/work/evidence.bak; mkdir -p /verif/work; cp -r /verif/evidence /verif/work/evidence.bak
git -C /repo apply "$sd/patch.diff" || { echo "patch does not apply to /repo"; exit 2; }
for p in $props; do
  out=$(cd /verif && ./check $p --tier ${TIER:-quick} 2>&1); rc=$?
  echo "== $p rc=$rc $(echo "$out" | grep '^check ' | cut -c1-120)"
  echo "$out" | grep -E "VIOLATION|INCONCLUSIVE|violation:" | cut -c1-220 | head -6
done
git -C /repo checkout -q -- .
cp /verif/work/evidence.bak/*.json /verif/evidence/; rm -rf /verif/work/evidence.bak
