#!/bin/bash
# seed_eval.sh <seeded/<id> dir> [props...]: evaluate the registered checks against a seeded change in a scratch
# worktree (VERIF_REPO), leaving /repo and /verif/evidence untouched. Output: <dir>/eval.log
set -u
sd=$(realpath "$1"); shift
id=$(basename $sd)
props="$@"
[ -z "$props" ] && props=$(python3 -c "import json;print(json.load(open('$sd/meta.json'))['property'])")
wt=/tmp/evalwt/$id; out=/tmp/evalout/$id
rm -rf $out; mkdir -p /tmp/evalwt $out
git -C /repo worktree remove --force $wt 2>/dev/null
git -C /repo worktree add --detach $wt HEAD >/dev/null 2>&1 || { echo "cannot create worktree"; exit 2; }
git -C $wt apply "$sd/patch.diff" || { echo "patch does not apply"; git -C /repo worktree remove --force $wt; exit 2; }
: > $sd/eval.log
for p in $props; do
  o=$(cd /verif && VERIF_REPO=$wt VERIF_OUT=$out /verif/bin/gosym check $p --tier ${TIER:-quick} 2>&1); rc=$?
  { echo "== $p rc=$rc $(echo "$o" | grep '^check ' | cut -c1-140)"; echo "$o" | grep -E "VIOLATION|INCONCLUSIVE|violation:" | sed "s#$out#OUT#g" | cut -c1-260 | head -8; } | tee -a $sd/eval.log
done
git -C /repo worktree remove --force $wt
rm -rf $out
